//! Batches of generated schemas for the compile-and-run checks (C16, C20): groups of up to three
//! schemas (dependencies + a main schema) from the grammar-directed generator in its clean, rich
//! mode, plus variants of each main schema: declaration order permuted, docs/comments edited, and
//! one variant per semantic edit class. A batch is a pure function of its `BatchId`.

use crate::model::*;
use crate::print::{self, Style};
use heck::ToUpperCamelCase;
use std::collections::{BTreeMap, BTreeSet};
use vcommon::{mix, SplitMix, Tape};

#[derive(Debug, Clone, Copy, PartialEq, Eq)]
pub struct BatchId {
    pub seed: u64,
    pub thorough: bool,
    pub index: u32,
}

impl BatchId {
    pub fn key(&self) -> String {
        format!("s{}.{}.b{}", self.seed as i64, if self.thorough { "thorough" } else { "quick" }, self.index)
    }

    pub fn parse(key: &str) -> Option<Self> {
        let mut it = key.split('.');
        let seed = it.next()?.strip_prefix('s')?.parse::<i64>().ok()? as u64;
        let thorough = match it.next()? {
            "thorough" => true,
            "quick" => false,
            _ => return None,
        };
        let index = it.next()?.strip_prefix('b')?.parse().ok()?;
        Some(BatchId { seed, thorough, index })
    }

    pub fn groups(&self) -> usize {
        GROUPS_PER_BATCH
    }
}

pub const GROUPS_PER_BATCH: usize = 16;

#[derive(Debug, Clone)]
pub struct Unit {
    pub name: String,
    pub model: Model,
}

#[derive(Debug, Clone)]
pub struct EditInfo {
    pub label: &'static str,
    /// Nodes (by their name in the base schema) that were edited directly.
    pub edited: Vec<String>,
    /// Base node name -> name in the variant, for nodes that were renamed.
    pub renamed: BTreeMap<String, String>,
    /// Nodes of the base schema that have no counterpart in the variant (and vice versa).
    pub vanished: BTreeSet<String>,
    /// The schema itself was renamed: every node changes.
    pub all_change: bool,
}

#[derive(Debug, Clone)]
pub struct SchemaVariant {
    /// Directory/module name: "perm", "doc", "e00".. .
    pub tag: String,
    /// "perm" | "doc" | edit label
    pub label: &'static str,
    pub main: Unit,
    pub style: Style,
    pub edit: Option<EditInfo>,
}

#[derive(Debug, Clone)]
pub struct Group {
    pub index: usize,
    pub deps: Vec<Unit>,
    pub main: Unit,
    pub style: Style,
    pub variants: Vec<SchemaVariant>,
    /// How often the generator drew one of the five names rustc cannot express.
    pub excluded_idents: u32,
    pub docs: DocMode,
}

#[derive(Debug, Clone)]
pub struct Batch {
    pub id: BatchId,
    pub groups: Vec<Group>,
}

const MAIN_NAMES: &[&str] = &["main", "main", "app", "type", "match", "mod", "use", "my_schema", "proto2", "dyn"];

fn tape_bytes(seed: u64, n: usize) -> Vec<u8> {
    let mut r = SplitMix(seed);
    let mut v = Vec::with_capacity(n);
    while v.len() < n {
        v.extend_from_slice(&r.next().to_le_bytes());
    }
    v.truncate(n);
    v
}

pub fn source_of(u: &Unit, st: Style) -> String {
    print::print(&u.model, st)
}

pub fn generate_batch(id: BatchId) -> Batch {
    let base = mix(mix(id.seed, 0xC16), mix(id.thorough as u64, id.index as u64));
    let mut groups: Vec<Group> = (0..GROUPS_PER_BATCH).map(|g| generate_group(mix(base, g as u64), g)).collect();
    // the repository's code generator test schemas as one more group (no variants)
    let mut up = crate::upstream::units();
    if let Some(main) = up.pop() {
        groups.push(Group { index: groups.len(), deps: up, main, style: Style::plain(), variants: vec![], excluded_idents: 0, docs: DocMode::None });
    }
    Batch { id, groups }
}

fn generate_group(seed: u64, index: usize) -> Group {
    let bytes = tape_bytes(seed, 4000);
    let mut t = Tape::new(&bytes);
    // one group in six uses the unrestricted plain doc pool (quotes, backslashes, NUL, ..)
    let docs = if index % 6 == 5 { DocMode::Plain } else { DocMode::Safe };
    let comments = 1 + t.below(3) as u8;
    let n_deps = t.below(3);
    let mut importable: Vec<Exports> = vec![];
    let mut deps = vec![];
    let mut excluded = 0;
    for i in 0..n_deps {
        let name = ["a", "b"][i];
        let cfg = Cfg {
            noise: 0,
            docs: DocMode::Safe,
            comments: 1,
            max_defs: 4,
            importable: importable.clone(),
            schema_index: (i + 1) as u32,
            rich: true,
        };
        let mut g = Gen::new(&mut t, cfg);
        let model = g.schema(name);
        excluded += g.excluded;
        importable.push(g.exports.clone());
        deps.push(Unit { name: name.to_string(), model });
    }
    let cfg = Cfg { noise: 0, docs, comments, max_defs: 8, importable, schema_index: 0, rich: true };
    let main_name = *t.pick(MAIN_NAMES);
    let style = Style::from_tape(&mut t);
    let mut g = Gen::new(&mut t, cfg);
    let mut model = g.schema(main_name);
    excluded += g.excluded;
    // at least a couple of definitions so that the group is worth compiling
    if model.defs.is_empty() {
        model.defs.push(Def::Struct {
            pre: vec![],
            name: "Foo".into(),
            body: StructBody {
                inner: vec![],
                fields: vec![Field { pre: vec![], required: true, name: "a".into(), id: "1".into(), ty: Ty::Kw("u8") }],
                fallback: None,
            },
        });
    }
    let main = Unit { name: main_name.to_string(), model };
    let mut rng = SplitMix(mix(seed, 0xED17));
    let variants = make_variants(&main, &mut rng, index);
    Group { index, deps, main, style, variants, excluded_idents: excluded, docs }
}

// ---------------------------------------------------------------------------------------------
// nodes: the named types and services of a schema, as the generated code names them

#[derive(Debug, Clone, Copy, PartialEq, Eq)]
pub enum NodeKind {
    Struct,
    Enum,
    Newtype,
    Service,
}

#[derive(Debug, Clone)]
pub enum NodeBody<'a> {
    Struct(&'a StructBody),
    Enum(&'a EnumBody),
    Newtype(&'a Ty),
    Service(&'a Service),
}

#[derive(Debug, Clone)]
pub struct Node<'a> {
    /// Name of the generated Rust type = name in the lexical id.
    pub name: String,
    pub kind: NodeKind,
    pub body: NodeBody<'a>,
    /// Inline types only: the service that owns it.
    pub inline_of: Option<String>,
}

pub fn camel(s: &str) -> String {
    // same convention as the code generator: leading/trailing underscores are kept
    let start = s.len() - s.trim_start_matches('_').len();
    let end = s.trim_end_matches('_').len();
    if start >= end {
        return s.to_string();
    }
    format!("{}{}{}", &s[..start], s[start..end].to_upper_camel_case(), &s[end..])
}

pub fn inline_name(svc: &str, item: &str, part: &str) -> String {
    format!("{}{}{}", svc, camel(item), part)
}

/// (part suffix, type) of every function part / event payload of a service.
pub fn service_parts(s: &Service) -> Vec<(String, &'static str, &TyOrInline)> {
    let mut v = vec![];
    for item in &s.items {
        match item {
            Item::Fn(f) => match &f.body {
                FnBody::Term => {}
                FnBody::Ok(t) => v.push((f.name.clone(), "Ok", t)),
                FnBody::Full { args, ok, err } => {
                    if let Some(p) = args {
                        v.push((f.name.clone(), "Args", &p.ty));
                    }
                    if let Some(p) = ok {
                        v.push((f.name.clone(), "Ok", &p.ty));
                    }
                    if let Some(p) = err {
                        v.push((f.name.clone(), "Error", &p.ty));
                    }
                }
            },
            Item::Ev(e) => {
                if let Some(t) = &e.ty {
                    v.push((e.name.clone(), "Args", t));
                }
            }
        }
    }
    v
}

pub fn nodes(m: &Model) -> Vec<Node<'_>> {
    let mut out = vec![];
    for d in &m.defs {
        match d {
            Def::Struct { name, body, .. } => out.push(Node { name: name.clone(), kind: NodeKind::Struct, body: NodeBody::Struct(body), inline_of: None }),
            Def::Enum { name, body, .. } => out.push(Node { name: name.clone(), kind: NodeKind::Enum, body: NodeBody::Enum(body), inline_of: None }),
            Def::Newtype { name, ty, .. } => out.push(Node { name: name.clone(), kind: NodeKind::Newtype, body: NodeBody::Newtype(ty), inline_of: None }),
            Def::Service(s) => {
                out.push(Node { name: s.name.clone(), kind: NodeKind::Service, body: NodeBody::Service(s), inline_of: None });
                for (item, part, t) in service_parts(s) {
                    match t {
                        TyOrInline::Ty(_) => {}
                        TyOrInline::Struct(b) => out.push(Node {
                            name: inline_name(&s.name, &item, part),
                            kind: NodeKind::Struct,
                            body: NodeBody::Struct(b),
                            inline_of: Some(s.name.clone()),
                        }),
                        TyOrInline::Enum(b) => out.push(Node {
                            name: inline_name(&s.name, &item, part),
                            kind: NodeKind::Enum,
                            body: NodeBody::Enum(b),
                            inline_of: Some(s.name.clone()),
                        }),
                    }
                }
            }
            Def::Const { .. } => {}
        }
    }
    out
}

fn ty_refs(t: &Ty, out: &mut Vec<(Option<String>, String)>) {
    match t {
        Ty::Kw(_) => {}
        Ty::Gen1(_, a) => ty_refs(a, out),
        Ty::Map(k, v) => {
            ty_refs(k, out);
            ty_refs(v, out);
        }
        Ty::Result(a, b) => {
            ty_refs(a, out);
            ty_refs(b, out);
        }
        Ty::Array(e, _) => ty_refs(e, out),
        Ty::Ref(s, n) => out.push((s.clone(), n.clone())),
    }
}

/// Custom types (schema, name) a node refers to directly; inline types of a service are
/// referred to by their generated name.
pub fn node_refs(n: &Node) -> Vec<(Option<String>, String)> {
    let mut out = vec![];
    match &n.body {
        NodeBody::Struct(b) => {
            for f in &b.fields {
                ty_refs(&f.ty, &mut out);
            }
        }
        NodeBody::Enum(b) => {
            for v in &b.variants {
                if let Some(t) = &v.ty {
                    ty_refs(t, &mut out);
                }
            }
        }
        NodeBody::Newtype(t) => ty_refs(t, &mut out),
        NodeBody::Service(s) => {
            for (item, part, t) in service_parts(s) {
                match t {
                    TyOrInline::Ty(t) => ty_refs(t, &mut out),
                    _ => out.push((None, inline_name(&s.name, &item, part))),
                }
            }
        }
    }
    out
}

/// Names of the nodes of `m` from which `target` is reachable through references inside the
/// schema (including `target` itself).
pub fn ancestors(m: &Model, target: &str) -> BTreeSet<String> {
    let ns = nodes(m);
    let mut set = BTreeSet::new();
    set.insert(target.to_string());
    loop {
        let mut grew = false;
        for n in &ns {
            if set.contains(&n.name) {
                continue;
            }
            if node_refs(n).iter().any(|(s, r)| s.is_none() && set.contains(r)) {
                set.insert(n.name.clone());
                grew = true;
            }
        }
        if !grew {
            break;
        }
    }
    set
}

/// Longest reference distance from any node to `target` (0 = nobody refers to it).
pub fn max_distance_to(m: &Model, target: &str) -> usize {
    let ns = nodes(m);
    let mut dist: BTreeMap<String, usize> = BTreeMap::new();
    dist.insert(target.to_string(), 0);
    let mut best = 0;
    for _ in 0..ns.len() {
        for n in &ns {
            let mut d = None;
            for (s, r) in node_refs(n) {
                if s.is_none() {
                    if let Some(x) = dist.get(&r) {
                        d = Some(d.map_or(x + 1, |y: usize| y.max(x + 1)));
                    }
                }
            }
            if let Some(d) = d {
                if n.name != target && dist.get(&n.name).map_or(true, |o| *o < d) && d <= ns.len() {
                    dist.insert(n.name.clone(), d);
                    best = best.max(d);
                }
            }
        }
    }
    best
}

// ---------------------------------------------------------------------------------------------
// variants

fn shuffle<T>(v: &mut [T], r: &mut SplitMix) {
    for i in (1..v.len()).rev() {
        let j = r.below(i + 1);
        v.swap(i, j);
    }
}

fn permute_struct(b: &mut StructBody, r: &mut SplitMix) {
    shuffle(&mut b.fields, r);
}

fn permute_enum(b: &mut EnumBody, r: &mut SplitMix) {
    shuffle(&mut b.variants, r);
}

fn permute_inline(t: &mut TyOrInline, r: &mut SplitMix) {
    match t {
        TyOrInline::Ty(_) => {}
        TyOrInline::Struct(b) => permute_struct(b, r),
        TyOrInline::Enum(b) => permute_enum(b, r),
    }
}

/// Declaration order of definitions, fields, variants, functions/events and fallbacks permuted.
fn permuted(m: &Model, r: &mut SplitMix) -> Model {
    let mut m = m.clone();
    shuffle(&mut m.defs, r);
    shuffle(&mut m.imports, r);
    for d in m.defs.iter_mut() {
        match d {
            Def::Struct { body, .. } => permute_struct(body, r),
            Def::Enum { body, .. } => permute_enum(body, r),
            Def::Service(s) => {
                shuffle(&mut s.items, r);
                s.fallbacks.reverse();
                for item in s.items.iter_mut() {
                    match item {
                        Item::Fn(f) => match &mut f.body {
                            FnBody::Term => {}
                            FnBody::Ok(t) => permute_inline(t, r),
                            FnBody::Full { args, ok, err } => {
                                for p in [args, ok, err].into_iter().flatten() {
                                    permute_inline(&mut p.ty, r);
                                }
                            }
                        },
                        Item::Ev(e) => {
                            if let Some(t) = &mut e.ty {
                                permute_inline(t, r);
                            }
                        }
                    }
                }
            }
            _ => {}
        }
    }
    m
}

fn edit_pre(pre: &mut Vec<Pre>, r: &mut SplitMix, docs_allowed: bool, inner: bool) {
    // keep attributes, replace comments and docs
    pre.retain(|p| matches!(p, Pre::Attr(_) | Pre::InnerAttr(_)));
    if r.below(3) != 0 {
        pre.insert(0, Pre::Comment(format!(" edited comment {}", r.below(100))));
    }
    if docs_allowed && r.below(3) != 0 {
        let text = format!(" Edited documentation {} with a [Foo] link.", r.below(100));
        pre.insert(0, if inner { Pre::InnerDoc(text) } else { Pre::Doc(text) });
    }
}

fn doc_struct(b: &mut StructBody, r: &mut SplitMix, inline: bool) {
    if inline {
        let attrs: Vec<Pre> = b.inner.iter().filter(|p| matches!(p, Pre::InnerAttr(_))).cloned().collect();
        b.inner = attrs;
        if r.below(2) == 0 {
            b.inner.insert(0, Pre::InnerDoc(" edited inner documentation".into()));
        }
    }
    for f in b.fields.iter_mut() {
        edit_pre(&mut f.pre, r, true, false);
    }
    if let Some(f) = &mut b.fallback {
        edit_pre(&mut f.pre, r, true, false);
    }
}

fn doc_enum(b: &mut EnumBody, r: &mut SplitMix, inline: bool) {
    if inline {
        let attrs: Vec<Pre> = b.inner.iter().filter(|p| matches!(p, Pre::InnerAttr(_))).cloned().collect();
        b.inner = attrs;
        if r.below(2) == 0 {
            b.inner.insert(0, Pre::InnerDoc(" edited inner documentation".into()));
        }
    }
    for v in b.variants.iter_mut() {
        edit_pre(&mut v.pre, r, true, false);
    }
    if let Some(f) = &mut b.fallback {
        edit_pre(&mut f.pre, r, true, false);
    }
}

fn doc_inline(t: &mut TyOrInline, r: &mut SplitMix) {
    match t {
        TyOrInline::Ty(_) => {}
        TyOrInline::Struct(b) => doc_struct(b, r, true),
        TyOrInline::Enum(b) => doc_enum(b, r, true),
    }
}

/// All docs and comments replaced, removed or added.
fn redocumented(m: &Model, r: &mut SplitMix) -> Model {
    let mut m = m.clone();
    m.header = if r.below(2) == 0 { vec![Pre::InnerDoc(" edited schema documentation".into())] } else { vec![] };
    for i in m.imports.iter_mut() {
        edit_pre(&mut i.pre, r, false, false);
    }
    for d in m.defs.iter_mut() {
        match d {
            Def::Struct { pre, body, .. } => {
                edit_pre(pre, r, true, false);
                doc_struct(body, r, false);
            }
            Def::Enum { pre, body, .. } => {
                edit_pre(pre, r, true, false);
                doc_enum(body, r, false);
            }
            Def::Const { pre, .. } => edit_pre(pre, r, true, false),
            Def::Newtype { pre, .. } => edit_pre(pre, r, true, false),
            Def::Service(s) => {
                edit_pre(&mut s.pre, r, true, false);
                edit_pre(&mut s.uuid_pre, r, false, false);
                edit_pre(&mut s.ver_pre, r, false, false);
                for item in s.items.iter_mut() {
                    match item {
                        Item::Fn(f) => {
                            edit_pre(&mut f.pre, r, true, false);
                            match &mut f.body {
                                FnBody::Term => {}
                                FnBody::Ok(t) => doc_inline(t, r),
                                FnBody::Full { args, ok, err } => {
                                    for p in [args, ok, err].into_iter().flatten() {
                                        edit_pre(&mut p.pre, r, false, false);
                                        doc_inline(&mut p.ty, r);
                                    }
                                }
                            }
                        }
                        Item::Ev(e) => {
                            edit_pre(&mut e.pre, r, true, false);
                            if let Some(t) = &mut e.ty {
                                doc_inline(t, r);
                            }
                        }
                    }
                }
                for (_, f) in s.fallbacks.iter_mut() {
                    edit_pre(&mut f.pre, r, true, false);
                }
            }
        }
    }
    m
}

fn rename_refs_ty(t: &mut Ty, from: &str, to: &str) {
    match t {
        Ty::Kw(_) => {}
        Ty::Gen1(_, a) => rename_refs_ty(a, from, to),
        Ty::Map(k, v) => {
            rename_refs_ty(k, from, to);
            rename_refs_ty(v, from, to);
        }
        Ty::Result(a, b) => {
            rename_refs_ty(a, from, to);
            rename_refs_ty(b, from, to);
        }
        Ty::Array(e, _) => rename_refs_ty(e, from, to),
        Ty::Ref(s, n) => {
            if s.is_none() && n == from {
                *n = to.to_string();
            }
        }
    }
}

fn for_each_ty(m: &mut Model, f: &mut dyn FnMut(&mut Ty)) {
    fn sb(b: &mut StructBody, f: &mut dyn FnMut(&mut Ty)) {
        for x in b.fields.iter_mut() {
            f(&mut x.ty);
        }
    }
    fn eb(b: &mut EnumBody, f: &mut dyn FnMut(&mut Ty)) {
        for x in b.variants.iter_mut() {
            if let Some(t) = &mut x.ty {
                f(t);
            }
        }
    }
    fn ti(t: &mut TyOrInline, f: &mut dyn FnMut(&mut Ty)) {
        match t {
            TyOrInline::Ty(t) => f(t),
            TyOrInline::Struct(b) => sb(b, f),
            TyOrInline::Enum(b) => eb(b, f),
        }
    }
    for d in m.defs.iter_mut() {
        match d {
            Def::Struct { body, .. } => sb(body, f),
            Def::Enum { body, .. } => eb(body, f),
            Def::Newtype { ty, .. } => f(ty),
            Def::Const { .. } => {}
            Def::Service(s) => {
                for item in s.items.iter_mut() {
                    match item {
                        Item::Fn(x) => match &mut x.body {
                            FnBody::Term => {}
                            FnBody::Ok(t) => ti(t, f),
                            FnBody::Full { args, ok, err } => {
                                for p in [args, ok, err].into_iter().flatten() {
                                    ti(&mut p.ty, f);
                                }
                            }
                        },
                        Item::Ev(e) => {
                            if let Some(t) = &mut e.ty {
                                ti(t, f);
                            }
                        }
                    }
                }
            }
        }
    }
}

fn def_name(d: &Def) -> &str {
    match d {
        Def::Struct { name, .. } | Def::Enum { name, .. } | Def::Const { name, .. } | Def::Newtype { name, .. } => name,
        Def::Service(s) => &s.name,
    }
}

fn fn_has_inline(f: &FnDef) -> bool {
    match &f.body {
        FnBody::Term => false,
        FnBody::Ok(t) => !matches!(t, TyOrInline::Ty(_)),
        FnBody::Full { args, ok, err } => [args, ok, err].into_iter().flatten().any(|p| !matches!(p.ty, TyOrInline::Ty(_))),
    }
}

fn bump_id(id: &str, taken: &[String]) -> String {
    let mut v: u64 = id.parse().unwrap_or(0);
    loop {
        v += 1;
        if !taken.iter().any(|t| t.parse::<u64>().ok() == Some(v)) {
            return v.to_string();
        }
    }
}

pub const EDIT_CLASSES: &[&str] = &[
    "edit:schema-name",
    "edit:type-name",
    "edit:field-name",
    "edit:variant-name",
    "edit:function-name",
    "edit:event-name",
    "edit:member-id",
    "edit:required-flag",
    "edit:referenced-type",
    "edit:fallback-toggled",
    "edit:service-uuid",
    "edit:service-version",
    "edit:members-added",
];

/// Applies one semantic edit of class `class`; `None` if the schema offers no site for it.
fn semantic_edit(base: &Unit, class: &'static str, r: &mut SplitMix) -> Option<(Unit, EditInfo)> {
    let mut u = base.clone();
    let mut info = EditInfo { label: class, edited: vec![], renamed: BTreeMap::new(), vanished: BTreeSet::new(), all_change: false };
    let ndefs = u.model.defs.len();
    if ndefs == 0 {
        return None;
    }
    // candidate definitions in a random rotation
    let start = r.below(ndefs);
    let mut order: Vec<usize> = (0..ndefs).map(|i| (start + i) % ndefs).collect();
    if r.below(3) != 0 {
        // two times out of three prefer a definition that other types refer to (over two hops
        // if there is one): that is where "every referencing type changes" has something to say
        order.sort_by_key(|i| std::cmp::Reverse(max_distance_to(&base.model, def_name(&base.model.defs[*i])).min(2)));
    }
    match class {
        "edit:schema-name" => {
            u.name = format!("{}_x", u.name);
            info.all_change = true;
            return Some((u, info));
        }
        "edit:type-name" => {
            for i in order {
                let old = def_name(&u.model.defs[i]).to_string();
                if matches!(u.model.defs[i], Def::Const { .. }) {
                    continue;
                }
                let new = format!("{old}Renamed");
                // inline types of a renamed service change their names too
                let before: Vec<String> = nodes(&u.model).iter().filter(|n| n.inline_of.as_deref() == Some(&old)).map(|n| n.name.clone()).collect();
                match &mut u.model.defs[i] {
                    Def::Struct { name, .. } | Def::Enum { name, .. } | Def::Newtype { name, .. } => *name = new.clone(),
                    Def::Service(s) => s.name = new.clone(),
                    Def::Const { .. } => unreachable!(),
                }
                for_each_ty(&mut u.model, &mut |t| rename_refs_ty(t, &old, &new));
                info.edited.push(old.clone());
                info.renamed.insert(old.clone(), new.clone());
                for b in before {
                    let suffix = b[old.len()..].to_string();
                    info.renamed.insert(b.clone(), format!("{new}{suffix}"));
                    info.edited.push(b);
                }
                return Some((u, info));
            }
            None
        }
        "edit:field-name" | "edit:required-flag" => {
            for i in order {
                if let Def::Struct { name, body, .. } = &mut u.model.defs[i] {
                    if body.fields.is_empty() {
                        continue;
                    }
                    let k = r.below(body.fields.len());
                    if class == "edit:field-name" {
                        body.fields[k].name.push_str("_renamed");
                    } else {
                        body.fields[k].required = !body.fields[k].required;
                    }
                    info.edited.push(name.clone());
                    return Some((u, info));
                }
            }
            None
        }
        "edit:variant-name" => {
            for i in order {
                if let Def::Enum { name, body, .. } = &mut u.model.defs[i] {
                    if body.variants.is_empty() {
                        continue;
                    }
                    let k = r.below(body.variants.len());
                    body.variants[k].name.push_str("Renamed");
                    info.edited.push(name.clone());
                    return Some((u, info));
                }
            }
            None
        }
        "edit:function-name" | "edit:event-name" => {
            for i in order {
                if let Def::Service(s) = &mut u.model.defs[i] {
                    for item in s.items.iter_mut() {
                        match item {
                            Item::Fn(f) if class == "edit:function-name" && !fn_has_inline(f) => {
                                f.name.push_str("_renamed");
                                info.edited.push(s.name.clone());
                                return Some((u, info));
                            }
                            Item::Ev(e) if class == "edit:event-name" && !matches!(e.ty, Some(TyOrInline::Struct(_)) | Some(TyOrInline::Enum(_))) => {
                                e.name.push_str("_renamed");
                                info.edited.push(s.name.clone());
                                return Some((u, info));
                            }
                            _ => {}
                        }
                    }
                }
            }
            None
        }
        "edit:member-id" => {
            for i in order {
                match &mut u.model.defs[i] {
                    Def::Struct { name, body, .. } if !body.fields.is_empty() => {
                        let taken: Vec<String> = body.fields.iter().map(|f| f.id.clone()).collect();
                        let k = r.below(body.fields.len());
                        body.fields[k].id = bump_id(&body.fields[k].id, &taken);
                        info.edited.push(name.clone());
                        return Some((u, info));
                    }
                    Def::Enum { name, body, .. } if !body.variants.is_empty() => {
                        let taken: Vec<String> = body.variants.iter().map(|f| f.id.clone()).collect();
                        let k = r.below(body.variants.len());
                        body.variants[k].id = bump_id(&body.variants[k].id, &taken);
                        info.edited.push(name.clone());
                        return Some((u, info));
                    }
                    Def::Service(s) if !s.items.is_empty() => {
                        let k = r.below(s.items.len());
                        let fn_ids: Vec<String> = s.items.iter().filter_map(|i| if let Item::Fn(f) = i { Some(f.id.clone()) } else { None }).collect();
                        let ev_ids: Vec<String> = s.items.iter().filter_map(|i| if let Item::Ev(f) = i { Some(f.id.clone()) } else { None }).collect();
                        match &mut s.items[k] {
                            Item::Fn(f) => f.id = bump_id(&f.id, &fn_ids),
                            Item::Ev(e) => e.id = bump_id(&e.id, &ev_ids),
                        }
                        info.edited.push(s.name.clone());
                        return Some((u, info));
                    }
                    _ => {}
                }
            }
            None
        }
        "edit:referenced-type" => {
            // prefer a definition that others refer to over at least two hops
            let mut order = order;
            order.sort_by_key(|i| std::cmp::Reverse(max_distance_to(&base.model, def_name(&base.model.defs[*i])).min(2)));
            let key_newtypes: BTreeSet<String> = key_position_refs(&base.model);
            for i in order {
                match &mut u.model.defs[i] {
                    Def::Struct { name, body, .. } if !body.fields.is_empty() => {
                        let k = r.below(body.fields.len());
                        let old = body.fields[k].ty.clone();
                        body.fields[k].ty = Ty::Gen1("option", Box::new(old));
                        info.edited.push(name.clone());
                        return Some((u, info));
                    }
                    Def::Enum { name, body, .. } if body.variants.iter().any(|v| v.ty.is_some()) => {
                        let v = body.variants.iter_mut().find(|v| v.ty.is_some()).unwrap();
                        let old = v.ty.clone().unwrap();
                        v.ty = Some(Ty::Gen1("vec", Box::new(old)));
                        info.edited.push(name.clone());
                        return Some((u, info));
                    }
                    Def::Newtype { name, ty, .. } if !key_newtypes.contains(name.as_str()) => {
                        let old = ty.clone();
                        *ty = Ty::Gen1("option", Box::new(old));
                        info.edited.push(name.clone());
                        return Some((u, info));
                    }
                    _ => {}
                }
            }
            None
        }
        "edit:fallback-toggled" => {
            for i in order {
                match &mut u.model.defs[i] {
                    Def::Struct { name, body, .. } => {
                        body.fallback = match body.fallback {
                            Some(_) => None,
                            None => Some(Fallback { pre: vec![], name: "unknown_fields".into() }),
                        };
                        info.edited.push(name.clone());
                        return Some((u, info));
                    }
                    Def::Enum { name, body, .. } => {
                        body.fallback = match body.fallback {
                            Some(_) => None,
                            None => Some(Fallback { pre: vec![], name: "Unknown".into() }),
                        };
                        info.edited.push(name.clone());
                        return Some((u, info));
                    }
                    Def::Service(s) => {
                        if s.fallbacks.is_empty() {
                            s.fallbacks.push((r.below(2) == 0, Fallback { pre: vec![], name: "unknown_item".into() }));
                        } else {
                            s.fallbacks.remove(0);
                        }
                        info.edited.push(s.name.clone());
                        return Some((u, info));
                    }
                    _ => {}
                }
            }
            None
        }
        "edit:service-uuid" | "edit:service-version" => {
            for i in order {
                if let Def::Service(s) = &mut u.model.defs[i] {
                    if class == "edit:service-uuid" {
                        s.uuid = format!("ffffffff{}", &s.uuid[8..]);
                    } else {
                        s.ver = bump_id(&s.ver, &[]);
                    }
                    info.edited.push(s.name.clone());
                    return Some((u, info));
                }
            }
            None
        }
        "edit:members-added" => {
            // the "newer version" of the schema: every struct gets an optional field, every enum a
            // variant, every service a function and an event (ids above everything in use)
            let mut any = false;
            for d in u.model.defs.iter_mut() {
                match d {
                    Def::Struct { name, body, .. } => {
                        let id = body.fields.iter().filter_map(|f| f.id.parse::<u64>().ok()).max().unwrap_or(0) + 3;
                        body.fields.push(Field { pre: vec![], required: false, name: "added_field".into(), id: id.to_string(), ty: Ty::Gen1("vec", Box::new(Ty::Kw("string"))) });
                        body.fields.push(Field { pre: vec![], required: false, name: "added_field2".into(), id: (id + 1).to_string(), ty: Ty::Kw("u32") });
                        info.edited.push(name.clone());
                        any = true;
                    }
                    Def::Enum { name, body, .. } => {
                        let id = body.variants.iter().filter_map(|f| f.id.parse::<u64>().ok()).max().unwrap_or(0) + 3;
                        body.variants.push(Variant { pre: vec![], name: "AddedVariant".into(), id: id.to_string(), ty: Some(Ty::Map(Box::new(Ty::Kw("u8")), Box::new(Ty::Kw("string")))) });
                        body.variants.push(Variant { pre: vec![], name: "AddedUnitVariant".into(), id: (id + 1).to_string(), ty: None });
                        info.edited.push(name.clone());
                        any = true;
                    }
                    Def::Service(s) => {
                        let id = s.items.iter().map(|i| match i {
                            Item::Fn(f) => f.id.parse::<u64>().unwrap_or(0),
                            Item::Ev(e) => e.id.parse::<u64>().unwrap_or(0),
                        }).max().unwrap_or(0) + 3;
                        s.items.push(Item::Fn(FnDef { pre: vec![], name: "added_function".into(), id: id.to_string(), body: FnBody::Term }));
                        s.items.push(Item::Ev(EvDef { pre: vec![], name: "added_event".into(), id: id.to_string(), ty: None }));
                        info.edited.push(s.name.clone());
                        any = true;
                    }
                    _ => {}
                }
            }
            // inline structs/enums of services as well
            for d in u.model.defs.iter_mut() {
                if let Def::Service(s) = d {
                    let sname = s.name.clone();
                    let mut touched = vec![];
                    let mut grow = |item: &str, part: &str, t: &mut TyOrInline| match t {
                        TyOrInline::Ty(_) => {}
                        TyOrInline::Struct(b) => {
                            let id = b.fields.iter().filter_map(|f| f.id.parse::<u64>().ok()).max().unwrap_or(0) + 3;
                            b.fields.push(Field { pre: vec![], required: false, name: "added_field".into(), id: id.to_string(), ty: Ty::Kw("string") });
                            touched.push(inline_name(&sname, item, part));
                        }
                        TyOrInline::Enum(b) => {
                            let id = b.variants.iter().filter_map(|f| f.id.parse::<u64>().ok()).max().unwrap_or(0) + 3;
                            b.variants.push(Variant { pre: vec![], name: "AddedVariant".into(), id: id.to_string(), ty: Some(Ty::Kw("i64")) });
                            touched.push(inline_name(&sname, item, part));
                        }
                    };
                    for item in s.items.iter_mut() {
                        match item {
                            Item::Fn(f) => {
                                let fname = f.name.clone();
                                match &mut f.body {
                                    FnBody::Term => {}
                                    FnBody::Ok(t) => grow(&fname, "Ok", t),
                                    FnBody::Full { args, ok, err } => {
                                        if let Some(p) = args {
                                            grow(&fname, "Args", &mut p.ty);
                                        }
                                        if let Some(p) = ok {
                                            grow(&fname, "Ok", &mut p.ty);
                                        }
                                        if let Some(p) = err {
                                            grow(&fname, "Error", &mut p.ty);
                                        }
                                    }
                                }
                            }
                            Item::Ev(e) => {
                                let ename = e.name.clone();
                                if let Some(t) = &mut e.ty {
                                    grow(&ename, "Args", t);
                                }
                            }
                        }
                    }
                    info.edited.extend(touched);
                }
            }
            if any {
                Some((u, info))
            } else {
                None
            }
        }
        _ => None,
    }
}

/// Names of newtypes of this schema that are used in a map-key / set position somewhere.
fn key_position_refs(m: &Model) -> BTreeSet<String> {
    fn walk(t: &Ty, key: bool, out: &mut BTreeSet<String>) {
        match t {
            Ty::Kw(_) => {}
            Ty::Gen1(g, a) => walk(a, *g == "set", out),
            Ty::Map(k, v) => {
                walk(k, true, out);
                walk(v, false, out);
            }
            Ty::Result(a, b) => {
                walk(a, false, out);
                walk(b, false, out);
            }
            Ty::Array(e, _) => walk(e, false, out),
            Ty::Ref(None, n) => {
                if key {
                    out.insert(n.clone());
                }
            }
            Ty::Ref(Some(_), _) => {}
        }
    }
    let mut out = BTreeSet::new();
    let mut m2 = m.clone();
    for_each_ty(&mut m2, &mut |t| walk(t, false, &mut out));
    // newtypes of key newtypes are key types as well: close transitively
    loop {
        let mut grew = false;
        for d in &m.defs {
            if let Def::Newtype { name, ty: Ty::Ref(None, target), .. } = d {
                if out.contains(name) && out.insert(target.clone()) {
                    grew = true;
                }
            }
        }
        if !grew {
            break;
        }
    }
    out
}

fn make_variants(main: &Unit, r: &mut SplitMix, group_index: usize) -> Vec<SchemaVariant> {
    let mut v = vec![];
    let noisy = Style { noise: 2, exotic: false, nl: 0, final_newline: true, compact: false, seed: r.next() };
    v.push(SchemaVariant {
        tag: "perm".into(),
        label: "perm",
        main: Unit { name: main.name.clone(), model: permuted(&main.model, r) },
        style: Style::plain(),
        edit: None,
    });
    v.push(SchemaVariant {
        tag: "doc".into(),
        label: "doc",
        main: Unit { name: main.name.clone(), model: redocumented(&main.model, r) },
        style: noisy,
        edit: None,
    });
    // every group gets the "newer version" variant (needed for the old/new survival oracle) and
    // six further edit classes, rotating so that a batch covers every class several times
    let mut classes: Vec<&'static str> = vec!["edit:members-added"];
    let others: Vec<&'static str> = EDIT_CLASSES.iter().copied().filter(|c| *c != "edit:members-added").collect();
    for k in 0..6 {
        classes.push(others[(group_index * 6 + k) % others.len()]);
    }
    for (i, class) in classes.into_iter().enumerate() {
        if let Some((unit, info)) = semantic_edit(main, class, r) {
            v.push(SchemaVariant { tag: format!("e{i}"), label: class, main: unit, style: Style::plain(), edit: Some(info) });
        }
    }
    v
}
