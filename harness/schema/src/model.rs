//! Schema model: a syntax tree that mirrors `parser/grammar.pest` rule by rule, and its
//! tape-driven generator (`schema_model`). Every value of the model prints (see `print.rs`) to a
//! text that the grammar accepts; semantic validity is optional (`noise`).

use crate::text;
use vcommon::Tape;

#[derive(Debug, Clone)]
pub enum Pre {
    /// `// ...`; the text never starts with `/` or `!`.
    Comment(String),
    /// `/// ...`
    Doc(String),
    /// `//! ...`
    InnerDoc(String),
    /// `#[..]`
    Attr(Attr),
    /// `#![..]`
    InnerAttr(Attr),
}

#[derive(Debug, Clone)]
pub struct Attr {
    pub name: String,
    pub opts: Vec<String>,
    pub trailing_comma: bool,
}

#[derive(Debug, Clone)]
pub enum Ty {
    Kw(&'static str),
    Gen1(&'static str, Box<Ty>),
    Map(Box<Ty>, Box<Ty>),
    Result(Box<Ty>, Box<Ty>),
    Array(Box<Ty>, ArrLen),
    Ref(Option<String>, String),
}

#[derive(Debug, Clone)]
pub enum ArrLen {
    Lit(String),
    Ref(Option<String>, String),
}

#[derive(Debug, Clone)]
pub struct Field {
    pub pre: Vec<Pre>,
    pub required: bool,
    pub name: String,
    pub id: String,
    pub ty: Ty,
}

#[derive(Debug, Clone)]
pub struct Fallback {
    pub pre: Vec<Pre>,
    pub name: String,
}

#[derive(Debug, Clone, Default)]
pub struct StructBody {
    /// Only for inline structs: `//!` docs and `#![..]` attributes.
    pub inner: Vec<Pre>,
    pub fields: Vec<Field>,
    pub fallback: Option<Fallback>,
}

#[derive(Debug, Clone)]
pub struct Variant {
    pub pre: Vec<Pre>,
    pub name: String,
    pub id: String,
    pub ty: Option<Ty>,
}

#[derive(Debug, Clone, Default)]
pub struct EnumBody {
    pub inner: Vec<Pre>,
    pub variants: Vec<Variant>,
    pub fallback: Option<Fallback>,
}

#[derive(Debug, Clone)]
pub enum TyOrInline {
    Ty(Ty),
    Struct(StructBody),
    Enum(EnumBody),
}

#[derive(Debug, Clone)]
pub struct FnPart {
    /// Comments only.
    pub pre: Vec<Pre>,
    pub ty: TyOrInline,
}

#[derive(Debug, Clone)]
pub enum FnBody {
    /// `fn f @ 1;`
    Term,
    /// `fn f @ 1 = T;`
    Ok(TyOrInline),
    /// `fn f @ 1 { args = ..; ok = ..; err = ..; }`
    Full { args: Option<FnPart>, ok: Option<FnPart>, err: Option<FnPart> },
}

#[derive(Debug, Clone)]
pub struct FnDef {
    pub pre: Vec<Pre>,
    pub name: String,
    pub id: String,
    pub body: FnBody,
}

#[derive(Debug, Clone)]
pub struct EvDef {
    pub pre: Vec<Pre>,
    pub name: String,
    pub id: String,
    pub ty: Option<TyOrInline>,
}

#[derive(Debug, Clone)]
pub enum Item {
    Fn(FnDef),
    Ev(EvDef),
}

#[derive(Debug, Clone)]
pub struct Service {
    pub pre: Vec<Pre>,
    pub name: String,
    pub uuid_pre: Vec<Pre>,
    pub uuid: String,
    pub ver_pre: Vec<Pre>,
    pub ver: String,
    pub items: Vec<Item>,
    /// (is_fn, fallback) in source order; at most one of each kind.
    pub fallbacks: Vec<(bool, Fallback)>,
}

#[derive(Debug, Clone)]
pub enum ConstVal {
    Int(&'static str, String),
    /// Raw literal including the quotes.
    Str(String),
    Uuid(String),
}

#[derive(Debug, Clone)]
pub enum Def {
    Struct { pre: Vec<Pre>, name: String, body: StructBody },
    Enum { pre: Vec<Pre>, name: String, body: EnumBody },
    Service(Service),
    Const { pre: Vec<Pre>, name: String, val: ConstVal },
    Newtype { pre: Vec<Pre>, name: String, ty: Ty },
}

#[derive(Debug, Clone)]
pub struct Import {
    pub pre: Vec<Pre>,
    pub name: String,
}

#[derive(Debug, Clone, Default)]
pub struct Model {
    /// `(comment* ~ doc_string_inline)*`: comments and inner docs; the last element is an inner
    /// doc (trailing comments belong to the first import/definition).
    pub header: Vec<Pre>,
    pub imports: Vec<Import>,
    pub defs: Vec<Def>,
}

/// What another schema exports, for external references.
#[derive(Debug, Clone, Default)]
pub struct Exports {
    pub schema: String,
    pub types: Vec<String>,
    pub key_types: Vec<String>,
    pub int_consts: Vec<String>,
    /// key newtypes whose target is another key newtype of the same schema (chains)
    pub key_chains: Vec<String>,
}

#[derive(Debug, Clone, Copy, PartialEq, Eq)]
pub enum DocMode {
    None,
    Plain,
    Adversarial,
    /// Markdown with links but without `"` and `\\` (which the Rust generator copies verbatim
    /// into `#[aldrin(doc = "..")]` attributes).
    Safe,
}

#[derive(Debug, Clone)]
pub struct Cfg {
    /// 0 = semantically clean (no errors expected), 1 = occasional slips, 2 = frequent slips.
    pub noise: u8,
    pub docs: DocMode,
    /// Comment density 0..=3.
    pub comments: u8,
    pub max_defs: usize,
    /// Schemas that can be imported, with what they export.
    pub importable: Vec<Exports>,
    /// Index used to make service uuids unique across the schemas of one case.
    pub schema_index: u32,
    /// C16/C20 mode (only meaningful with `noise == 0`): generics nested up to depth 4, names
    /// from pools that include Rust keywords (usable as raw identifiers), attributes that do not
    /// request extra derives, doc text without quotes/backslashes unless `docs` says otherwise.
    pub rich: bool,
}

const TYPE_NAMES: &[&str] = &["Foo", "Bar", "Baz", "Qux", "Item", "Node", "Point", "Color", "Entry", "Kind"];
const ODD_TYPE_NAMES: &[&str] = &[
    "foo", "my_type", "FOO_BAR", "Self", "_", "_x", "struct", "fn", "enum", "Vec", "String", "\u{dc}n\u{ef}", "Foo", "A1", "type",
    "Option", "fooBar", "Result", "required",
];
const FIELD_NAMES: &[&str] = &["a", "b", "c", "x", "y", "id", "name", "foo_bar", "count", "data"];
const ODD_FIELD_NAMES: &[&str] = &[
    "FooBar", "fooBar", "_", "type", "self", "\u{fc}n\u{ef}", "a1", "fallback", "uuid", "version", "args", "a", "A", "struct", "ok",
    "match", "u8", "string",
];
const VARIANT_NAMES: &[&str] = &["A", "B", "C", "None", "Some", "Ok", "Err", "Red", "Green", "Blue"];
const ODD_VARIANT_NAMES: &[&str] = &["a_b", "lower", "X_Y", "A", "_", "fallback", "Self", "\u{c4}", "enum", "u8"];
const FN_NAMES: &[&str] = &["get", "set", "do_it", "f", "g", "list", "add", "remove"];
const EV_NAMES: &[&str] = &["changed", "added", "removed", "e", "tick", "done"];
const ODD_ITEM_NAMES: &[&str] = &["Get", "doIt", "fn", "event", "get", "changed", "_", "args", "fallback", "\u{e9}v", "type"];
const CONST_NAMES: &[&str] = &["N", "SIZE", "MAX", "FOO_BAR", "LEN", "LIMIT"];
const ODD_CONST_NAMES: &[&str] = &["n", "fooBar", "Size", "N", "_", "Foo"];
const SVC_NAMES: &[&str] = &["Svc", "Api", "Control", "Player"];
const ATTR_NAMES: &[&str] = &["rust", "derive", "doc", "x", "_a", "cfg"];
const ATTR_OPTS: &[&str] = &["impl_copy", "impl_partial_eq", "impl_eq", "impl_partial_ord", "impl_ord", "impl_hash", "x", "_", "a1"];
const IMPORT_NAMES: &[&str] = &["a", "b", "c", "other", "types"];
const ODD_IMPORT_NAMES: &[&str] = &["nope", "main", "A", "self", "_", "b", "a", "\u{e4}", "struct", "zz9"];

/// Rust keywords (strict, reserved and weak) that are valid schema identifiers and can be written
/// as raw identifiers, plus - marked by `EXCLUDED_IDENTS` - the five names that cannot.
const KW_NAMES: &[&str] = &[
    "type", "match", "fn", "impl", "trait", "mod", "use", "async", "await", "dyn", "move", "ref", "static", "where", "while",
    "loop", "yield", "try", "in", "as", "const", "continue", "break", "else", "enum", "extern", "false", "true", "for", "if",
    "let", "mut", "pub", "return", "struct", "abstract", "become", "do", "final", "macro", "override", "priv", "typeof",
    "unsized", "virtual", "union", "self", "Self", "super", "crate", "_",
];

/// Names rustc cannot express as raw identifiers: excluded by construction and counted.
pub const EXCLUDED_IDENTS: &[&str] = &["self", "Self", "super", "crate", "_"];

const PRIMS: &[&str] = &[
    "bool", "u8", "i8", "u16", "i16", "u32", "i32", "u64", "i64", "f32", "f64", "string", "uuid", "object_id", "service_id",
    "value", "bytes", "lifetime", "unit",
];
const KEY_PRIMS: &[&str] = &["u8", "i8", "u16", "i16", "u32", "i32", "u64", "i64", "string", "uuid"];
const GEN1: &[&str] = &["option", "box", "vec", "set", "sender", "receiver"];
const INT_KWS: &[&str] = &["u8", "i8", "u16", "i16", "u32", "i32", "u64", "i64"];

/// Keywords that `type_name` tries before `named_ref`: an identifier starting with one of them
/// is not parsed as a reference (PEG ordered choice), so references must avoid these prefixes.
const TYPE_KW_PREFIXES: &[&str] = &[
    "bool", "u8", "i8", "u16", "i16", "u32", "i32", "u64", "i64", "f32", "f64", "string", "uuid", "object_id", "service_id",
    "value", "bytes", "lifetime", "unit",
];

pub fn safe_type_ref(name: &str) -> bool {
    !TYPE_KW_PREFIXES.iter().any(|k| name.starts_with(k))
}

const ODD_IDS: &[&str] = &["0", "1", "1", "2", "007", "255", "4294967295", "4294967296", "-1", "-0", "99999999999999999999", "00"];
const ODD_INTS: &[&str] = &["0", "1", "-1", "255", "256", "-129", "65536", "4294967296", "18446744073709551616", "007", "-0"];
const STRINGS: &[&str] = &[
    "\"\"", "\"abc\"", "\"a b\"", "\"esc \\\\ \\\" end\"", "\"\u{fc}n\u{ef} \u{1F600}\"", "\"a\rb\"", "\"//\"", "\"/* */\"",
    "\"\t\"", "\"'\"", "\"\u{a0}\"", "\"\\\\\"",
];
const ODD_STRINGS: &[&str] = &["\"\\n\"", "\"\\x41\"", "\"\\\u{e4}\"", "\"a\\ b\"", "\"\\\\\\n\""];

pub struct Gen<'a, 'b> {
    pub t: &'a mut Tape<'b>,
    pub cfg: Cfg,
    /// Names of types defined so far in this schema (struct/enum/newtype), clean mode references.
    types: Vec<String>,
    key_types: Vec<String>,
    int_consts: Vec<String>,
    services: Vec<String>,
    used_names: Vec<String>,
    imported: Vec<usize>,
    uuid_counter: u32,
    pub exports: Exports,
    /// How often one of `EXCLUDED_IDENTS` was drawn (and replaced).
    pub excluded: u32,
}

impl<'a, 'b> Gen<'a, 'b> {
    pub fn new(t: &'a mut Tape<'b>, cfg: Cfg) -> Self {
        Gen {
            t,
            cfg,
            types: vec![],
            key_types: vec![],
            int_consts: vec![],
            services: vec![],
            used_names: vec![],
            imported: vec![],
            uuid_counter: 0,
            exports: Exports::default(),
            excluded: 0,
        }
    }

    /// True when a deliberate slip should be made here.
    fn slip(&mut self) -> bool {
        match self.cfg.noise {
            0 => false,
            1 => self.t.chance(16),
            _ => self.t.chance(70),
        }
    }

    fn unique(&mut self, base: &str) -> String {
        if !self.used_names.iter().any(|n| n == base) {
            self.used_names.push(base.to_string());
            return base.to_string();
        }
        for i in 2.. {
            let n = format!("{base}{i}");
            if !self.used_names.iter().any(|x| *x == n) {
                self.used_names.push(n.clone());
                return n;
            }
        }
        unreachable!()
    }

    /// In rich mode: sometimes a Rust keyword; `None` (and a count) for the five inexpressible names.
    fn keyword_name(&mut self) -> Option<String> {
        if !self.cfg.rich || !self.t.chance(45) {
            return None;
        }
        let n = *self.t.pick(KW_NAMES);
        if EXCLUDED_IDENTS.contains(&n) {
            self.excluded += 1;
            return None;
        }
        Some(n.to_string())
    }

    fn def_name(&mut self, pool: &[&str], odd: &[&str]) -> String {
        if let Some(k) = self.keyword_name() {
            return self.unique(&k);
        }
        if self.slip() {
            let n = (*self.t.pick(odd)).to_string();
            self.used_names.push(n.clone());
            n
        } else {
            let b = *self.t.pick(pool);
            self.unique(b)
        }
    }

    // --- preludes ---------------------------------------------------------------------------

    fn comment_count(&mut self) -> usize {
        match self.cfg.comments {
            0 => 0,
            1 => {
                if self.t.chance(40) {
                    1
                } else {
                    0
                }
            }
            2 => {
                if self.t.chance(110) {
                    1 + self.t.below(2)
                } else {
                    0
                }
            }
            _ => self.t.below(4),
        }
    }

    fn doc_block(&mut self) -> Vec<String> {
        match self.cfg.docs {
            DocMode::None => vec![],
            DocMode::Plain => {
                let n = self.comment_count();
                (0..n).map(|_| text::doc_line(self.t)).collect()
            }
            DocMode::Safe => {
                let n = self.comment_count();
                (0..n).map(|_| text::safe_doc_line(self.t)).collect()
            }
            DocMode::Adversarial => {
                if self.t.chance(150) {
                    text::adversarial_block(self.t)
                } else {
                    vec![]
                }
            }
        }
    }

    fn attr(&mut self) -> Attr {
        let name = (*self.t.pick(ATTR_NAMES)).to_string();
        let n = self.t.below(7);
        let mut opts: Vec<String> = (0..n).map(|_| (*self.t.pick(ATTR_OPTS)).to_string()).collect();
        if self.cfg.rich && name == "rust" {
            // `#[rust(impl_copy, ..)]` asks the generator for extra derives that the fields may not
            // support: that is the schema author's business, not the property's
            opts.retain(|o| !o.starts_with("impl_"));
        }
        let trailing_comma = !opts.is_empty() && self.t.chance(60);
        Attr { name, opts, trailing_comma }
    }

    /// `(comment | doc_string | attribute)*` in arbitrary interleaving; what is allowed depends
    /// on the position.
    fn prelude(&mut self, docs: bool, attrs: bool) -> Vec<Pre> {
        let mut items: Vec<Pre> = vec![];
        let nc = self.comment_count();
        for _ in 0..nc {
            items.push(Pre::Comment(text::comment_line(self.t)));
        }
        if docs {
            for d in self.doc_block() {
                items.push(Pre::Doc(d));
            }
        }
        if attrs && self.cfg.comments > 0 && self.t.chance(50) {
            let n = 1 + self.t.below(2);
            for _ in 0..n {
                items.push(Pre::Attr(self.attr()));
            }
        }
        self.interleave(items)
    }

    /// Inline struct/enum prelude: `(doc_string_inline | attribute_inline)*`.
    fn inner_prelude(&mut self) -> Vec<Pre> {
        let mut items: Vec<Pre> = vec![];
        for d in self.doc_block() {
            items.push(Pre::InnerDoc(d));
        }
        if self.cfg.comments > 0 && self.t.chance(50) {
            let n = 1 + self.t.below(2);
            for _ in 0..n {
                items.push(Pre::InnerAttr(self.attr()));
            }
        }
        self.interleave(items)
    }

    /// Random merge that keeps the relative order within each kind (the AST keeps one list per
    /// kind, so only that order is observable) but interleaves the kinds arbitrarily.
    fn interleave(&mut self, items: Vec<Pre>) -> Vec<Pre> {
        if items.len() < 2 || !self.t.chance(128) {
            return items;
        }
        let mut lanes: Vec<std::collections::VecDeque<Pre>> = vec![Default::default(), Default::default(), Default::default()];
        for i in items {
            let lane = match i {
                Pre::Comment(_) => 0,
                Pre::Doc(_) | Pre::InnerDoc(_) => 1,
                Pre::Attr(_) | Pre::InnerAttr(_) => 2,
            };
            lanes[lane].push_back(i);
        }
        let mut out = vec![];
        loop {
            let live: Vec<usize> = (0..3).filter(|i| !lanes[*i].is_empty()).collect();
            if live.is_empty() {
                break;
            }
            let l = live[self.t.below(live.len())];
            out.push(lanes[l].pop_front().unwrap());
        }
        out
    }

    fn comments_only(&mut self) -> Vec<Pre> {
        let nc = self.comment_count();
        (0..nc).map(|_| Pre::Comment(text::comment_line(self.t))).collect()
    }

    // --- types ------------------------------------------------------------------------------

    fn some_ref(&mut self, key: bool) -> Option<Ty> {
        // internal or external reference that exists (clean mode)
        let ext: Vec<(String, String)> = self
            .imported
            .iter()
            .flat_map(|i| {
                let e = &self.cfg.importable[*i];
                let names = if key { &e.key_types } else { &e.types };
                names.iter().map(|n| (e.schema.clone(), n.clone())).collect::<Vec<_>>()
            })
            .collect();
        let own = if key { self.key_types.clone() } else { self.types.clone() };
        let total = own.len() + ext.len();
        if total == 0 {
            return None;
        }
        // rich mode: half of the references go to the most recently defined type, which builds
        // reference chains (A -> B -> C) instead of stars
        if self.cfg.rich && !own.is_empty() && self.t.bool() {
            return Some(Ty::Ref(None, own[own.len() - 1].clone()));
        }
        let i = self.t.below(total);
        if i < own.len() {
            Some(Ty::Ref(None, own[i].clone()))
        } else {
            let (s, n) = ext[i - own.len()].clone();
            Some(Ty::Ref(Some(s), n))
        }
    }

    fn odd_ref(&mut self) -> Ty {
        let mut n = (*self.t.pick(ODD_TYPE_NAMES)).to_string();
        if self.t.bool() {
            n = (*self.t.pick(TYPE_NAMES)).to_string();
        }
        if !safe_type_ref(&n) {
            n = "Foo".to_string();
        }
        if self.t.chance(50) {
            let s = if self.t.bool() { *self.t.pick(IMPORT_NAMES) } else { *self.t.pick(ODD_IMPORT_NAMES) };
            Ty::Ref(Some(s.to_string()), n)
        } else {
            Ty::Ref(None, n)
        }
    }

    fn key_ty(&mut self) -> Ty {
        if self.slip() {
            return self.ty(1);
        }
        if self.t.chance(40) {
            if let Some(r) = self.some_ref(true) {
                return r;
            }
        }
        Ty::Kw(*self.t.pick(KEY_PRIMS))
    }

    fn arr_len(&mut self) -> ArrLen {
        if self.slip() {
            return match self.t.below(4) {
                0 => ArrLen::Lit((*self.t.pick(ODD_INTS)).to_string()),
                1 => ArrLen::Ref(None, (*self.t.pick(CONST_NAMES)).to_string()),
                2 => ArrLen::Ref(Some((*self.t.pick(IMPORT_NAMES)).to_string()), (*self.t.pick(CONST_NAMES)).to_string()),
                _ => ArrLen::Ref(None, (*self.t.pick(TYPE_NAMES)).to_string()),
            };
        }
        if self.t.chance(60) {
            let mut all: Vec<(Option<String>, String)> = self.int_consts.iter().map(|c| (None, c.clone())).collect();
            for i in &self.imported {
                let e = &self.cfg.importable[*i];
                for c in &e.int_consts {
                    all.push((Some(e.schema.clone()), c.clone()));
                }
            }
            if !all.is_empty() {
                let (s, n) = all[self.t.below(all.len())].clone();
                return ArrLen::Ref(s, n);
            }
        }
        if self.cfg.rich {
            // generated Rust arrays live on the stack (and are copied around while decoding):
            // lengths stay small so that nested arrays do not exhaust it
            return ArrLen::Lit((*self.t.pick(&["1", "2", "3", "4", "8"])).to_string());
        }
        ArrLen::Lit((*self.t.pick(&["1", "2", "3", "16", "255"])).to_string())
    }

    pub fn ty(&mut self, depth: u32) -> Ty {
        let w: &[u32] = if depth == 0 {
            if self.cfg.rich {
                &[10, 0, 0, 0, 0, 7]
            } else {
                &[10, 0, 0, 0, 0, 3]
            }
        } else if self.cfg.rich {
            &[8, 6, 3, 2, 3, 10]
        } else {
            &[10, 5, 2, 1, 2, 4]
        };
        match self.t.weighted(w) {
            0 => Ty::Kw(*self.t.pick(PRIMS)),
            1 => {
                let g = *self.t.pick(GEN1);
                if g == "set" {
                    Ty::Gen1(g, Box::new(self.key_ty()))
                } else {
                    Ty::Gen1(g, Box::new(self.ty(depth - 1)))
                }
            }
            2 => {
                let k = self.key_ty();
                Ty::Map(Box::new(k), Box::new(self.ty(depth - 1)))
            }
            3 => Ty::Result(Box::new(self.ty(depth - 1)), Box::new(self.ty(depth - 1))),
            4 => {
                let e = self.ty(depth - 1);
                Ty::Array(Box::new(e), self.arr_len())
            }
            _ => {
                if self.slip() {
                    self.odd_ref()
                } else {
                    match self.some_ref(false) {
                        Some(r) => r,
                        None => Ty::Kw(*self.t.pick(PRIMS)),
                    }
                }
            }
        }
    }

    fn top_ty(&mut self) -> Ty {
        let d = 1 + self.t.below(if self.cfg.rich { 4 } else { 3 }) as u32;
        self.ty(d)
    }

    // --- bodies -----------------------------------------------------------------------------

    fn id(&mut self, next: &mut u32) -> String {
        if self.slip() {
            return (*self.t.pick(ODD_IDS)).to_string();
        }
        *next += self.t.below(3) as u32;
        let v = *next;
        *next += 1;
        v.to_string()
    }

    fn member_name(&mut self, pool: &[&str], odd: &[&str], used: &mut Vec<String>) -> String {
        if let Some(k) = self.keyword_name() {
            if !used.contains(&k) {
                used.push(k.clone());
                return k;
            }
        }
        if self.slip() {
            let n = (*self.t.pick(odd)).to_string();
            // `required` followed by white space is the keyword: never a field name
            if n == "required" {
                return "a".to_string();
            }
            return n;
        }
        let b = (*self.t.pick(pool)).to_string();
        if !used.contains(&b) {
            used.push(b.clone());
            return b;
        }
        for i in 2.. {
            let n = format!("{b}{i}");
            if !used.contains(&n) {
                used.push(n.clone());
                return n;
            }
        }
        unreachable!()
    }

    fn fallback(&mut self, name: &str) -> Option<Fallback> {
        if self.t.chance(50) {
            Some(Fallback { pre: self.prelude(true, false), name: name.to_string() })
        } else {
            None
        }
    }

    fn struct_body(&mut self, inline: bool) -> StructBody {
        let inner = if inline { self.inner_prelude() } else { vec![] };
        let n = self.t.below(5);
        let mut used = vec![];
        let mut next = 1u32;
        let mut fields = vec![];
        for _ in 0..n {
            let pre = self.prelude(true, false);
            let required = self.t.chance(60);
            let name = self.member_name(FIELD_NAMES, ODD_FIELD_NAMES, &mut used);
            let id = self.id(&mut next);
            let ty = self.top_ty();
            fields.push(Field { pre, required, name, id, ty });
        }
        let fb_name = if self.slip() { "a" } else { "unknown_fields" };
        let fallback = self.fallback(fb_name);
        StructBody { inner, fields, fallback }
    }

    fn enum_body(&mut self, inline: bool) -> EnumBody {
        let inner = if inline { self.inner_prelude() } else { vec![] };
        let mut n = self.t.below(5);
        if n == 0 && !self.slip() {
            n = 1;
        }
        let mut used = vec![];
        let mut next = 1u32;
        let mut variants = vec![];
        for _ in 0..n {
            let pre = self.prelude(true, false);
            let name = self.member_name(VARIANT_NAMES, ODD_VARIANT_NAMES, &mut used);
            let id = self.id(&mut next);
            let ty = if self.t.chance(100) { Some(self.top_ty()) } else { None };
            variants.push(Variant { pre, name, id, ty });
        }
        let fb_name = if self.slip() { "A" } else { "Unknown" };
        let fallback = self.fallback(fb_name);
        EnumBody { inner, variants, fallback }
    }

    fn ty_or_inline(&mut self) -> TyOrInline {
        match self.t.weighted(&[5, 3, 3]) {
            0 => TyOrInline::Ty(self.top_ty()),
            1 => TyOrInline::Struct(self.struct_body(true)),
            _ => TyOrInline::Enum(self.enum_body(true)),
        }
    }

    fn fn_part(&mut self) -> FnPart {
        FnPart { pre: self.comments_only(), ty: self.ty_or_inline() }
    }

    fn uuid(&mut self) -> String {
        self.uuid_counter += 1;
        if self.slip() {
            return (*self.t.pick(&[
                "00000000-0000-0000-0000-000000000000",
                "ABCDEF01-2345-6789-abcd-ef0123456789",
                "11111111-1111-4111-8111-111111111111",
            ]))
            .to_string();
        }
        format!("{:08x}-0000-4000-8000-{:012x}", self.cfg.schema_index + 1, self.uuid_counter)
    }

    fn service(&mut self) -> Service {
        let pre = self.prelude(true, false);
        let name = self.def_name(SVC_NAMES, ODD_TYPE_NAMES);
        let uuid_pre = self.comments_only();
        let uuid = self.uuid();
        let ver_pre = self.comments_only();
        let ver = if self.slip() { (*self.t.pick(ODD_INTS)).to_string() } else { (1 + self.t.below(3)).to_string() };
        let n = self.t.below(6);
        let mut used = vec![];
        let mut next_fn = 1u32;
        let mut next_ev = 1u32;
        let mut items = vec![];
        for _ in 0..n {
            let pre = self.prelude(true, false);
            if self.t.below(3) < 2 {
                let name = self.member_name(FN_NAMES, ODD_ITEM_NAMES, &mut used);
                let id = self.id(&mut next_fn);
                let body = match self.t.below(4) {
                    0 => FnBody::Term,
                    1 => FnBody::Ok(self.ty_or_inline()),
                    _ => {
                        let args = if self.t.bool() { Some(self.fn_part()) } else { None };
                        let ok = if self.t.bool() { Some(self.fn_part()) } else { None };
                        let err = if self.t.bool() { Some(self.fn_part()) } else { None };
                        FnBody::Full { args, ok, err }
                    }
                };
                items.push(Item::Fn(FnDef { pre, name, id, body }));
            } else {
                let name = self.member_name(EV_NAMES, ODD_ITEM_NAMES, &mut used);
                let id = self.id(&mut next_ev);
                let ty = if self.t.chance(170) { Some(self.ty_or_inline()) } else { None };
                items.push(Item::Ev(EvDef { pre, name, id, ty }));
            }
        }
        let mut fallbacks = vec![];
        let fn_name = if self.slip() { "get" } else { "unknown_function" };
        let ev_name = if self.slip() { "changed" } else { "unknown_event" };
        let f = self.fallback(fn_name).map(|f| (true, f));
        let e = self.fallback(ev_name).map(|f| (false, f));
        if self.t.bool() {
            fallbacks.extend(e);
            fallbacks.extend(f);
        } else {
            fallbacks.extend(f);
            fallbacks.extend(e);
        }
        Service { pre, name, uuid_pre, uuid, ver_pre, ver, items, fallbacks }
    }

    fn const_val(&mut self) -> ConstVal {
        match self.t.weighted(&[5, 2, 1]) {
            0 => {
                let kw = *self.t.pick(INT_KWS);
                let lit = if self.slip() {
                    (*self.t.pick(ODD_INTS)).to_string()
                } else if self.cfg.rich && self.t.bool() {
                    (1 + self.t.below(8)).to_string()
                } else {
                    (1 + self.t.below(100)).to_string()
                };
                ConstVal::Int(kw, lit)
            }
            1 => {
                if self.slip() {
                    ConstVal::Str((*self.t.pick(ODD_STRINGS)).to_string())
                } else {
                    ConstVal::Str((*self.t.pick(STRINGS)).to_string())
                }
            }
            _ => ConstVal::Uuid(self.uuid()),
        }
    }

    fn def(&mut self) -> Def {
        match self.t.weighted(&[6, 5, 5, 3, 3]) {
            0 => {
                let pre = self.prelude(true, true);
                let body = self.struct_body(false);
                // the name is registered after the body: clean references only point backwards
                let name = self.def_name(TYPE_NAMES, ODD_TYPE_NAMES);
                if safe_type_ref(&name) {
                    self.types.push(name.clone());
                    self.exports.types.push(name.clone());
                }
                Def::Struct { pre, name, body }
            }
            1 => {
                let pre = self.prelude(true, true);
                let body = self.enum_body(false);
                let name = self.def_name(TYPE_NAMES, ODD_TYPE_NAMES);
                if safe_type_ref(&name) && !body.variants.is_empty() {
                    self.types.push(name.clone());
                    self.exports.types.push(name.clone());
                }
                Def::Enum { pre, name, body }
            }
            2 => Def::Service(self.service()),
            3 => {
                let pre = self.prelude(true, false);
                // rich mode: keyword names for constants only now and then (the Rust generator
                // does not escape them, see the C16 findings, and every hit costs a whole group)
                let rich = self.cfg.rich;
                if rich && !self.t.chance(80) {
                    self.cfg.rich = false;
                }
                let name = self.def_name(CONST_NAMES, ODD_CONST_NAMES);
                self.cfg.rich = rich;
                let val = self.const_val();
                if let ConstVal::Int(_, lit) = &val {
                    let max = if self.cfg.rich { 8 } else { 999 };
                    if lit.parse::<u32>().map_or(false, |v| v > 0 && v <= max) && !lit.starts_with('0') {
                        self.int_consts.push(name.clone());
                        self.exports.int_consts.push(name.clone());
                    }
                }
                Def::Const { pre, name, val }
            }
            _ => {
                let pre = self.prelude(true, true);
                // newtype chains that cross a schema boundary: a newtype over an imported key
                // newtype that is itself a newtype over a type of ITS schema (the generator has to
                // resolve every hop in the schema the hop's name belongs to)
                let ext_chains: Vec<(String, String)> = self
                    .imported
                    .iter()
                    .flat_map(|i| {
                        let e = &self.cfg.importable[*i];
                        e.key_chains.iter().map(|n| (e.schema.clone(), n.clone())).collect::<Vec<_>>()
                    })
                    .collect();
                let (ty, is_key) = if !ext_chains.is_empty() && self.cfg.noise == 0 && self.t.chance(100) {
                    let (s, n) = ext_chains[self.t.below(ext_chains.len())].clone();
                    (Ty::Ref(Some(s), n), true)
                } else if self.t.chance(90) {
                    let k = self.key_ty();
                    let is_key = matches!(k, Ty::Kw(_)) || matches!(k, Ty::Ref(..));
                    (k, is_key && self.cfg.noise == 0)
                } else {
                    (self.top_ty(), false)
                };
                let name = self.def_name(TYPE_NAMES, ODD_TYPE_NAMES);
                if is_key && matches!(&ty, Ty::Ref(None, _)) && safe_type_ref(&name) {
                    self.exports.key_chains.push(name.clone());
                }
                if safe_type_ref(&name) {
                    self.types.push(name.clone());
                    self.exports.types.push(name.clone());
                    if is_key {
                        self.key_types.push(name.clone());
                        self.exports.key_types.push(name.clone());
                    }
                }
                Def::Newtype { pre, name, ty }
            }
        }
    }

    fn header(&mut self) -> Vec<Pre> {
        let mut out = vec![];
        let docs = match self.cfg.docs {
            DocMode::None => vec![],
            DocMode::Plain => {
                if self.t.chance(80) {
                    let n = 1 + self.t.below(3);
                    (0..n).map(|_| text::doc_line(self.t)).collect()
                } else {
                    vec![]
                }
            }
            DocMode::Safe => {
                if self.t.chance(80) {
                    let n = 1 + self.t.below(3);
                    (0..n).map(|_| text::safe_doc_line(self.t)).collect()
                } else {
                    vec![]
                }
            }
            DocMode::Adversarial => {
                if self.t.chance(170) {
                    text::adversarial_block(self.t)
                } else {
                    vec![]
                }
            }
        };
        for d in docs {
            for c in self.comments_only() {
                out.push(c);
            }
            out.push(Pre::InnerDoc(d));
        }
        out
    }

    fn imports(&mut self) -> Vec<Import> {
        let mut out = vec![];
        // imports of schemas that exist (their exports become referable)
        for i in 0..self.cfg.importable.len() {
            if self.t.chance(150) {
                self.imported.push(i);
                out.push(Import { pre: self.comments_only(), name: self.cfg.importable[i].schema.clone() });
            }
        }
        // further imports: unresolvable, duplicates, self import
        let extra = if self.cfg.noise == 0 {
            0
        } else if self.t.chance(90) {
            1 + self.t.below(3)
        } else {
            0
        };
        for _ in 0..extra {
            let name = if self.t.bool() { *self.t.pick(IMPORT_NAMES) } else { *self.t.pick(ODD_IMPORT_NAMES) };
            out.push(Import { pre: self.comments_only(), name: name.to_string() });
        }
        // order: as generated (sorted by construction only by accident), sometimes shuffled
        if out.len() >= 2 && self.t.chance(128) {
            for i in (1..out.len()).rev() {
                let j = self.t.below(i + 1);
                out.swap(i, j);
            }
        }
        out
    }

    /// Compile-and-run batches only: a dependency now and then ends with a chain of key newtypes
    /// (`newtype Inner = <key type>; newtype Outer = Inner;`), and a schema that imports such a
    /// dependency now and then ends with a newtype over the imported chain plus a struct that uses
    /// it as map and set key. The Rust generator has to follow the chain hop by hop, each hop in
    /// the schema its name belongs to, to know that the newtype is a key type.
    fn cross_schema_key_chain(&mut self, defs: &mut Vec<Def>) {
        if self.cfg.schema_index > 0 && self.t.chance(150) {
            let prim = *self.t.pick(KEY_PRIMS);
            let inner = self.def_name(TYPE_NAMES, ODD_TYPE_NAMES);
            let outer = self.def_name(TYPE_NAMES, ODD_TYPE_NAMES);
            if safe_type_ref(&inner) && safe_type_ref(&outer) {
                for n in [&inner, &outer] {
                    self.types.push(n.clone());
                    self.exports.types.push(n.clone());
                    self.key_types.push(n.clone());
                    self.exports.key_types.push(n.clone());
                }
                self.exports.key_chains.push(outer.clone());
                defs.push(Def::Newtype { pre: vec![], name: inner.clone(), ty: Ty::Kw(prim) });
                defs.push(Def::Newtype { pre: vec![], name: outer, ty: Ty::Ref(None, inner) });
            }
        }
        let ext_chains: Vec<(String, String)> = self
            .imported
            .iter()
            .flat_map(|i| {
                let e = &self.cfg.importable[*i];
                e.key_chains.iter().map(|n| (e.schema.clone(), n.clone())).collect::<Vec<_>>()
            })
            .collect();
        if !ext_chains.is_empty() && self.t.chance(170) {
            let (s, n) = ext_chains[self.t.below(ext_chains.len())].clone();
            let h = self.def_name(TYPE_NAMES, ODD_TYPE_NAMES);
            let user = self.def_name(TYPE_NAMES, ODD_TYPE_NAMES);
            if safe_type_ref(&h) && safe_type_ref(&user) {
                self.types.push(h.clone());
                self.exports.types.push(h.clone());
                self.key_types.push(h.clone());
                self.exports.key_types.push(h.clone());
                self.exports.key_chains.push(h.clone());
                defs.push(Def::Newtype { pre: vec![], name: h.clone(), ty: Ty::Ref(Some(s), n) });
                let fields = vec![
                    Field { pre: vec![], required: true, name: "by_key".into(), id: "1".into(), ty: Ty::Map(Box::new(Ty::Ref(None, h.clone())), Box::new(Ty::Kw("u32"))) },
                    Field { pre: vec![], required: false, name: "keys".into(), id: "2".into(), ty: Ty::Gen1("set", Box::new(Ty::Ref(None, h))) },
                ];
                self.types.push(user.clone());
                self.exports.types.push(user.clone());
                defs.push(Def::Struct { pre: vec![], name: user, body: StructBody { inner: vec![], fields, fallback: None } });
            }
        }
    }

    /// Compile-and-run batches only: a struct that has both an optional field of type `T` and a
    /// required field of type `option<T>` (the same Rust type `Option<T>` with two different wire
    /// contracts and two different introspection references), in either order, `T` being a custom
    /// type that nothing else in the struct names.
    fn option_twins(&mut self, defs: &mut Vec<Def>) {
        if !self.t.chance(110) {
            return;
        }
        let Some(target) = self.some_ref(false) else { return };
        let name = self.def_name(TYPE_NAMES, ODD_TYPE_NAMES);
        if !safe_type_ref(&name) {
            return;
        }
        let opt = Field { pre: vec![], required: false, name: "maybe".into(), id: "1".into(), ty: target.clone() };
        let req = Field { pre: vec![], required: true, name: "wrapped".into(), id: "2".into(), ty: Ty::Gen1("option", Box::new(target)) };
        let mut fields = if self.t.bool() { vec![opt, req] } else { vec![req, opt] };
        if self.t.chance(80) {
            fields.push(Field { pre: vec![], required: self.t.bool(), name: "n".into(), id: "3".into(), ty: Ty::Kw("u32") });
        }
        self.types.push(name.clone());
        self.exports.types.push(name.clone());
        defs.push(Def::Struct { pre: vec![], name, body: StructBody { inner: vec![], fields, fallback: None } });
    }

    pub fn schema(&mut self, name: &str) -> Model {
        self.exports.schema = name.to_string();
        let header = self.header();
        let imports = self.imports();
        let n = self.t.below(self.cfg.max_defs + 1);
        let mut defs = vec![];
        for _ in 0..n {
            defs.push(self.def());
        }
        if self.cfg.rich && self.cfg.noise == 0 {
            self.cross_schema_key_chain(&mut defs);
            self.option_twins(&mut defs);
        }
        Model { header, imports, defs }
    }
}

/// Structural counts of a model (what the generator intended), used for class labels.
#[derive(Debug, Default, Clone, Copy)]
pub struct ModelShape {
    pub defs: usize,
    pub inline_types: usize,
    pub nested_comments: usize,
    pub nested_docs: usize,
    pub attrs: usize,
    pub dup_imports: bool,
    pub unsorted_imports: bool,
}

pub fn model_shape(m: &Model) -> ModelShape {
    let mut s = ModelShape { defs: m.defs.len(), ..Default::default() };
    let names: Vec<&str> = m.imports.iter().map(|i| i.name.as_str()).collect();
    let mut sorted = names.clone();
    sorted.sort();
    s.unsorted_imports = sorted != names;
    sorted.dedup();
    s.dup_imports = sorted.len() != names.len();

    fn pre(s: &mut ModelShape, p: &[Pre], nested: bool) {
        for x in p {
            match x {
                Pre::Comment(_) => {
                    if nested {
                        s.nested_comments += 1
                    }
                }
                Pre::Doc(_) | Pre::InnerDoc(_) => {
                    if nested {
                        s.nested_docs += 1
                    }
                }
                Pre::Attr(_) | Pre::InnerAttr(_) => s.attrs += 1,
            }
        }
    }
    fn sb(s: &mut ModelShape, b: &StructBody) {
        pre(s, &b.inner, true);
        for f in &b.fields {
            pre(s, &f.pre, true);
        }
        if let Some(f) = &b.fallback {
            pre(s, &f.pre, true);
        }
    }
    fn eb(s: &mut ModelShape, b: &EnumBody) {
        pre(s, &b.inner, true);
        for v in &b.variants {
            pre(s, &v.pre, true);
        }
        if let Some(f) = &b.fallback {
            pre(s, &f.pre, true);
        }
    }
    fn ti(s: &mut ModelShape, t: &TyOrInline) {
        match t {
            TyOrInline::Ty(_) => {}
            TyOrInline::Struct(b) => {
                s.inline_types += 1;
                sb(s, b);
            }
            TyOrInline::Enum(b) => {
                s.inline_types += 1;
                eb(s, b);
            }
        }
    }
    for d in &m.defs {
        match d {
            Def::Struct { pre: p, body, .. } => {
                pre(&mut s, p, false);
                sb(&mut s, body);
            }
            Def::Enum { pre: p, body, .. } => {
                pre(&mut s, p, false);
                eb(&mut s, body);
            }
            Def::Service(svc) => {
                pre(&mut s, &svc.pre, false);
                pre(&mut s, &svc.uuid_pre, true);
                pre(&mut s, &svc.ver_pre, true);
                for i in &svc.items {
                    match i {
                        Item::Fn(f) => {
                            pre(&mut s, &f.pre, true);
                            match &f.body {
                                FnBody::Term => {}
                                FnBody::Ok(t) => ti(&mut s, t),
                                FnBody::Full { args, ok, err } => {
                                    for p in [args, ok, err].into_iter().flatten() {
                                        pre(&mut s, &p.pre, true);
                                        ti(&mut s, &p.ty);
                                    }
                                }
                            }
                        }
                        Item::Ev(e) => {
                            pre(&mut s, &e.pre, true);
                            if let Some(t) = &e.ty {
                                ti(&mut s, t);
                            }
                        }
                    }
                }
                for (_, f) in &svc.fallbacks {
                    pre(&mut s, &f.pre, true);
                }
            }
            Def::Const { pre: p, .. } => pre(&mut s, p, false),
            Def::Newtype { pre: p, .. } => pre(&mut s, p, false),
        }
    }
    s
}
