//! The repository's own `.aldrin` files, collected at start-up by walking the tree the harness
//! was pointed at (`vcommon::repo_root()`), so the checks always follow the repository's current
//! state.

use std::path::{Path, PathBuf};
use std::sync::OnceLock;

#[derive(Debug)]
pub struct RepoFile {
    /// Path relative to the repository root.
    pub rel: String,
    /// Directory (relative), used to find sibling schemas for imports.
    pub dir: String,
    /// File stem = schema name.
    pub stem: String,
    pub text: String,
}

fn walk(dir: &Path, root: &Path, out: &mut Vec<RepoFile>, depth: u32) {
    if depth > 12 {
        return;
    }
    let Ok(rd) = std::fs::read_dir(dir) else {
        return;
    };
    let mut entries: Vec<PathBuf> = rd.filter_map(|e| e.ok().map(|e| e.path())).collect();
    entries.sort();
    for p in entries {
        let name = p.file_name().and_then(|n| n.to_str()).unwrap_or("").to_string();
        let Ok(meta) = std::fs::symlink_metadata(&p) else {
            continue;
        };
        if meta.is_dir() {
            if name == "target" || name.starts_with('.') {
                continue;
            }
            walk(&p, root, out, depth + 1);
        } else if meta.is_file() && name.ends_with(".aldrin") {
            let Ok(bytes) = std::fs::read(&p) else {
                continue;
            };
            let text = String::from_utf8_lossy(&bytes).into_owned();
            let rel = p.strip_prefix(root).unwrap_or(&p).to_string_lossy().to_string();
            let dir = Path::new(&rel)
                .parent()
                .map(|d| d.to_string_lossy().to_string())
                .unwrap_or_default();
            let stem = name.trim_end_matches(".aldrin").to_string();
            out.push(RepoFile { rel, dir, stem, text });
        }
    }
}

/// All `.aldrin` files of the repository, sorted by relative path. Exits with status 2 (harness
/// trouble) when none can be found: the repository ships dozens of them.
pub fn files() -> &'static [RepoFile] {
    static FILES: OnceLock<Vec<RepoFile>> = OnceLock::new();
    FILES.get_or_init(|| {
        let root = vcommon::repo_root();
        let mut out = vec![];
        walk(&root, &root, &mut out, 0);
        out.sort_by(|a, b| a.rel.cmp(&b.rel));
        if out.is_empty() {
            eprintln!("harness: no .aldrin files found under {}", root.display());
            std::process::exit(2);
        }
        out
    })
}

/// Sibling schemas (same directory) of file `idx`, as (schema name, source).
pub fn siblings(idx: usize) -> Vec<(String, String)> {
    let fs = files();
    let me = &fs[idx];
    fs.iter()
        .enumerate()
        .filter(|(i, f)| *i != idx && f.dir == me.dir)
        .map(|(_, f)| (f.stem.clone(), f.text.clone()))
        .collect()
}
