//! vschema: checks over the schema front end (parser, diagnostics, formatter, code generator).
//! Library so that the cargo-fuzz targets can call the checks' case functions.
#![allow(dead_code)]
pub mod batch;
pub mod c16;
pub mod c17;
pub mod c18;
pub mod c20;
pub mod contract;
pub mod front;
pub mod gencrate;
pub mod irslots;
pub mod model;
pub mod print;
pub mod repo;
pub mod text;
pub mod upstream;
