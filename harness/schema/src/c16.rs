//! C16 Generated Rust types are wire-compatible with their schema.

use crate::batch::{self, Batch, BatchId, NodeKind, Unit};
use crate::contract::{self, Env, ValueGen};
use crate::gencrate::{self, BuildReport, Module, Prepared, Reply, Server};
use codec::refcodec::{self as rc, Mode};
use std::cell::RefCell;
use std::collections::HashMap;
use vcommon::{fingerprint, CheckDef, ClassPlan, Ctx, Outcome, PassInfo, Tape, Tier};

pub static DEF: CheckDef = CheckDef {
    id: "C16",
    level: "exploration",
    rule: "Per run one batch (thorough: several) of 16 schema groups is generated from the run seed: each group is up to three schemas (two importable dependencies and a main schema) from the grammar-directed generator in clean mode - all built-in types, generics nested up to depth 4, arrays with literal and constant lengths, optional/required fields, struct/enum fallbacks, newtypes incl. key newtypes as map/set keys, inline structs/enums in functions and events, external references, identifiers incl. Rust keywords as raw identifiers - plus a 'newer version' of each main schema (every struct gains optional fields, every enum variants, every service a function and an event); one further group holds the repository's own code generator test schemas (codegen/test/*.aldrin, translated from the parser's AST into the harness' model), so that the restated contract is cross-checked on the types upstream's tests pin. Parser and Generator::rust run in-process, the modules and a registry are compiled once per batch into a scratch crate depending on <repo>/aldrin (class compile: one verdict per module), and the built binary serves type-erased decode-then-encode requests. Classes value / mutation / oldnew draw (type, value) from a proptest tape: values are built from the schema AST by the restated wire contract (harness/schema/src/contract.rs) as reference-codec trees in either container encoding, with non-canonical varints, shuffled field order and unknown field ids / variants. Non-trivial = the type has >= 1 optional and >= 1 required field or >= 2 variants, and a container-typed member; distinct = distinct (type, value bytes).",
    assumptions: &[
        "the wire contract per schema type is restated in contract.rs (optional field = absent | none | some(x); result = enum 0/1; [T; N] = sequence of exactly N; newtype and box transparent; lifetime = object id; unit = none; vec<u8> = byte string because the generator maps it to its bytes type); it was cross-checked against the schemas and values of codegen/src/rust/test.rs",
        "meaning is compared with the reference codec (codec::refcodec::sem): container encoding, varint width, field order and chunking are not part of it",
        "array lengths are at most 8 (generated Rust arrays are stack values; a 255 x 255 array of 32-byte elements overflows the 8 MiB main thread stack of a debug build while decoding - a resource limit, not the subject of the property); the oracle server decodes on a thread with a 1 GiB stack",
        "excluded by construction and counted: the five names rustc cannot write as raw identifiers (self, Self, super, crate, _), attributes that request extra derives (#[rust(impl_copy, ..)]), names that collide in the generated module (X / XRef, S / SProxy, ..) and schemas the parser rejects",
        "a type whose module did not compile is reported once by the compile class and skipped by the value classes",
    ],
    plan,
    case,
    render,
    crashy: false,
    // shares of all evaluations of a run; a batch is one sample of 16 schema groups, so the shares
    // vary by a factor of two to three between seeds - the floors sit well below the observed range
    floors: &[
        ("value:roundtrip-ok", 0.20),
        ("mutation:rejected", 0.12),
        ("oldnew:survived", 0.03),
        ("oldnew:newer-members-present", 0.02),
        ("value:nontrivial-type", 0.03),
        ("value:unknown-fields-kept", 0.002),
        ("value:unknown-fields-dropped", 0.005),
        ("value:unknown-variant-kept", 0.001),
        ("value:upstream-test-schema-type", 0.02),
        ("value:inline-type", 0.01),
        ("value:epoch1", 0.08),
        ("value:epoch2", 0.08),
        ("mutation:required-field-dropped", 0.004),
        ("mutation:wrong-kind", 0.02),
        ("mutation:unknown-variant-no-fallback", 0.003),
        ("mutation:array-too-short", 0.0005),
        ("mutation:array-too-long", 0.0005),
        ("compile:ok", 0.0008),
    ],
    extra: Some(extra),
    extra_coverage: Some(extra_coverage),
};

// ---------------------------------------------------------------------------------------------
// run parameters and class names

/// The run's seed, read the way `vcommon` reads it (the check definition's hooks do not get it).
pub fn run_seed() -> u64 {
    let mut seed = std::env::var("VERIF_SEED").ok().and_then(|s| s.trim().parse::<i64>().ok()).map(|v| v as u64).unwrap_or(1);
    let args: Vec<String> = std::env::args().collect();
    for i in 0..args.len() {
        if args[i] == "--seed" {
            if let Some(v) = args.get(i + 1).and_then(|s| s.parse::<i64>().ok()) {
                seed = v as u64;
            }
        }
    }
    seed
}

pub fn batches(t: Tier) -> Vec<BatchId> {
    let seed = run_seed();
    match t {
        Tier::Quick => vec![BatchId { seed, thorough: false, index: 0 }],
        Tier::Thorough => (0..6).map(|index| BatchId { seed, thorough: true, index }).collect(),
    }
}

pub fn leak(s: String) -> &'static str {
    Box::leak(s.into_boxed_str())
}

/// "value@s1.quick.b0" -> ("value", batch id)
pub fn split_class(class: &str) -> Option<(&str, BatchId)> {
    let (kind, key) = class.split_once('@')?;
    Some((kind, BatchId::parse(key)?))
}

fn plan(t: Tier) -> Vec<ClassPlan> {
    let mut v = vec![];
    for b in batches(t) {
        let k = b.key();
        v.push(ClassPlan { class: leak(format!("value@{k}")), cases: 40_000, min_len: 8, max_len: 400 });
        v.push(ClassPlan { class: leak(format!("mutation@{k}")), cases: 24_000, min_len: 8, max_len: 400 });
        v.push(ClassPlan { class: leak(format!("oldnew@{k}")), cases: 12_000, min_len: 8, max_len: 400 });
    }
    v
}

fn extra(ctx: &mut Ctx) {
    for b in batches(ctx.tier) {
        let class = leak(format!("compile@{}", b.key()));
        let n = with_runtime(b, |rt| rt.prep.modules.len() + rt.prep.problems.len());
        for i in 0..n {
            ctx.eval_case(class, &(i as u16).to_le_bytes());
        }
    }
}

fn extra_coverage(t: Tier) -> serde_json::Value {
    let mut out = vec![];
    for b in batches(t) {
        let v = with_runtime(b, |rt| {
            serde_json::json!({
                "batch": rt.batch.id.key(),
                "groups": rt.batch.groups.len(),
                "modules": rt.prep.modules.len(),
                "registry_entries": rt.prep.modules.iter().map(|m| m.types.len()).sum::<usize>(),
                "value_types": rt.targets.len(),
                "modules_failed_to_compile": rt.report.failed_modules.keys().cloned().collect::<Vec<_>>(),
                "excluded_raw_identifiers_drawn": rt.batch.groups.iter().map(|g| g.excluded_idents).sum::<u32>(),
                "build_seconds": rt.report.seconds,
                "build_rounds": rt.report.rounds,
                "crate_dir": rt.crate_dir,
            })
        });
        out.push(v);
    }
    serde_json::json!({ "batches": out, "repo_root": vcommon::repo_root().to_string_lossy() })
}

// ---------------------------------------------------------------------------------------------
// per-process runtime: batch model, build report, oracle server

#[derive(Debug, Clone)]
pub struct Target {
    pub key: String,
    pub group: usize,
    pub schema: String,
    pub node: usize,
    pub module: usize,
}

pub struct Runtime {
    pub batch: Batch,
    pub prep: Prepared,
    pub report: BuildReport,
    pub server: Option<Server>,
    /// Value types (structs, enums, newtypes) of the base variant of every group.
    pub targets: Vec<Target>,
    pub crate_dir: String,
    pub confirmed_deaths: u32,
}

impl Runtime {
    pub fn module_usable(&self, m: &Module) -> bool {
        !self.report.failed_modules.keys().any(|f| *f == m.file || (f.contains("/base/") && f.starts_with(&format!("g{:02}/", m.group))))
    }

    pub fn find_module(&self, group: usize, variant: &str, schema: &str) -> Option<usize> {
        self.prep.modules.iter().position(|m| m.group == group && m.variant == variant && m.schema == schema)
    }

    pub fn units_of(&self, group: usize, variant: &str) -> Vec<&Unit> {
        let g = &self.batch.groups[group];
        let mut v: Vec<&Unit> = g.deps.iter().collect();
        if variant == "base" {
            v.push(&g.main);
        } else if let Some(x) = g.variants.iter().find(|x| x.tag == variant) {
            v.push(&x.main);
        }
        v
    }

    fn ensure_server(&mut self) -> Result<(), String> {
        if self.server.is_none() {
            match &self.report.binary {
                Some(bin) => self.server = Some(Server::spawn(bin)?),
                None => return Err("no oracle server binary".into()),
            }
        }
        Ok(())
    }

    /// Sends one request. If the server is found dead (killed from outside, or crashed on an
    /// earlier request) it is restarted and the request repeated once, so that `Reply::Dead` means
    /// "this very request kills the server".
    pub fn request(&mut self, f: impl Fn(&mut Server) -> Reply) -> Reply {
        let mut last = Reply::Dead("not started".into());
        if self.confirmed_deaths >= 12 {
            // a request that kills the server has been reported; restarting the server for every
            // shrinking candidate would take hours
            return Reply::Dead("the oracle server died repeatedly in this process; not restarted any more".into());
        }
        for _ in 0..2 {
            if let Err(e) = self.ensure_server() {
                return Reply::Dead(e);
            }
            last = f(self.server.as_mut().unwrap());
            if std::env::var_os("VERIF_DEBUG").is_some() {
                if let Reply::Dead(m) = &last {
                    eprintln!("debug: oracle server dead: {m} after {}", self.server.as_ref().map(|s| s.last_request.clone()).unwrap_or_default());
                }
            }
            if matches!(last, Reply::Dead(_)) {
                self.server = None;
                continue;
            }
            return last;
        }
        self.confirmed_deaths += 1;
        last
    }
}

thread_local! {
    static RUNTIMES: RefCell<HashMap<String, Runtime>> = RefCell::new(HashMap::new());
}

fn make_runtime(id: BatchId) -> Runtime {
    let batch = batch::generate_batch(id);
    let prep = gencrate::prepare(&batch);
    let report = gencrate::ensure_built(&id.key(), &prep);
    if let Some(infra) = &report.infra {
        eprintln!("harness: gencrate build trouble for batch {}: {}", id.key(), infra);
        std::process::exit(2);
    }
    let mut targets = vec![];
    for (mi, m) in prep.modules.iter().enumerate() {
        if m.variant != "base" {
            continue;
        }
        let g = &batch.groups[m.group];
        let unit = g.deps.iter().chain(std::iter::once(&g.main)).find(|u| u.name == m.schema).unwrap();
        for (ni, n) in batch::nodes(&unit.model).iter().enumerate() {
            if n.kind != NodeKind::Service {
                targets.push(Target { key: gencrate::type_key(m.group, "base", &m.schema, &n.name), group: m.group, schema: m.schema.clone(), node: ni, module: mi });
            }
        }
    }
    let crate_dir = report.binary.as_ref().and_then(|b| b.parent()).map(|p| p.to_string_lossy().to_string()).unwrap_or_default();
    Runtime { batch, prep, report, server: None, targets, crate_dir, confirmed_deaths: 0 }
}

pub fn with_runtime<R>(id: BatchId, f: impl FnOnce(&mut Runtime) -> R) -> R {
    RUNTIMES.with(|r| {
        let mut map = r.borrow_mut();
        let rt = map.entry(id.key()).or_insert_with(|| make_runtime(id));
        f(rt)
    })
}

// ---------------------------------------------------------------------------------------------
// cases

fn render(class: &str, tape: &[u8]) -> String {
    let Some((kind, id)) = split_class(class) else {
        return format!("unknown class {class}");
    };
    with_runtime(id, |rt| match kind {
        "compile" => {
            let i = u16::from_le_bytes([tape.first().copied().unwrap_or(0), tape.get(1).copied().unwrap_or(0)]) as usize;
            match rt.prep.modules.get(i) {
                Some(m) => format!("module {} of batch {}\nschema `{}`:\n{}", m.file, id.key(), m.schema, crate::front::escaped_lines(&m.source)),
                None => format!("schema #{} of batch {} that could not be turned into a module", i, id.key()),
            }
        }
        _ => {
            let mut t = Tape::new(tape);
            if rt.targets.is_empty() {
                return "no types".into();
            }
            let ti = t.below(rt.targets.len());
            let tg = rt.targets[ti].clone();
            let m = &rt.prep.modules[tg.module];
            format!(
                "batch {} type {} (crate {})\nschema `{}`:\n{}",
                id.key(),
                tg.key,
                rt.crate_dir,
                m.schema,
                crate::front::escaped_lines(&m.source)
            )
        }
    })
}

fn case(class: &str, tape: &[u8], _strict: bool) -> Outcome {
    let Some((kind, id)) = split_class(class) else {
        return Outcome::fail("harness:bad-class", format!("class {class} does not name a batch"));
    };
    with_runtime(id, |rt| match kind {
        "compile" => compile_case(rt, tape),
        "value" => value_case(rt, tape, false),
        "mutation" => value_case(rt, tape, true),
        "oldnew" => oldnew_case(rt, tape),
        _ => Outcome::fail("harness:bad-class", format!("unknown class kind {kind}")),
    })
}

fn first_error_line(text: &str) -> String {
    let l = text.lines().find(|l| l.starts_with("error")).unwrap_or("error");
    // error[E0308]: mismatched types -> E0308:mismatched-types ; quoted names removed
    let mut out = String::new();
    let mut quoted = false;
    for c in l.trim_start_matches("error").chars() {
        if c == '`' {
            quoted = !quoted;
            continue;
        }
        if quoted {
            continue;
        }
        out.push(if c.is_ascii_alphanumeric() { c } else { '-' });
    }
    while out.contains("--") {
        out = out.replace("--", "-");
    }
    out.trim_matches('-').chars().take(70).collect()
}

fn compile_case(rt: &mut Runtime, tape: &[u8]) -> Outcome {
    let i = u16::from_le_bytes([tape.first().copied().unwrap_or(0), tape.get(1).copied().unwrap_or(0)]) as usize;
    let n = rt.prep.modules.len();
    if i >= n {
        // a schema that did not become a module
        let Some(p) = rt.prep.problems.get(i - n) else {
            return Outcome::fail("harness:bad-index", "no such module");
        };
        if p.signature.starts_with("generator:") {
            // the generator produced a schema with parser errors: outside the domain, counted
            return Outcome::Pass(PassInfo { nontrivial: false, fp: fingerprint(p.detail.as_bytes()), classes: vec!["compile:schema-with-parser-errors(excluded)"] });
        }
        return Outcome::fail(
            format!("codegen:{}", p.signature),
            format!("group {} variant {} schema `{}`: {}\n{}", p.group, p.variant, p.schema, p.signature, p.detail),
        );
    }
    let m = rt.prep.modules[i].clone();
    let fp = fingerprint(m.rust.as_bytes());
    if let Some(err) = rt.report.failed_modules.get(&m.file) {
        // errors inside a generated `#[aldrin(doc = "..")]` attribute share a signature prefix: the
        // rustc message depends on which character of the doc text broke the string literal
        let first_block: String = err.split("\nerror").next().unwrap_or("").to_string();
        let area = if first_block.contains("#[aldrin(doc =") {
            "doc-attribute:"
        } else if first_block.contains("| pub const ") {
            "const-definition:"
        } else {
            ""
        };
        return Outcome::fail(
            format!("compile:{area}{}", first_error_line(err)),
            format!(
                "the Rust module generated for schema `{}` ({}/src/{}) does not compile:\n{}\nschema:\n{}",
                m.schema,
                rt.crate_dir,
                m.file,
                err.lines().take(30).collect::<Vec<_>>().join("\n"),
                crate::front::escaped_lines(&m.source)
            ),
        );
    }
    let mut classes = vec!["compile:ok"];
    if !rt.module_usable(&m) {
        classes = vec!["compile:skipped(base-module-failed)"];
    }
    if m.variant == "base" {
        classes.push("compile:base-module");
    }
    if m.source.contains("by_key") && m.source.contains("keys") {
        // the generator's fragment: newtype over an imported chain of key newtypes, used as a key
        classes.push("compile:cross-schema-key-newtype-chain");
    }
    Outcome::Pass(PassInfo { nontrivial: !m.types.is_empty(), fp, classes })
}

fn describe(v: &rc::RTree, bytes: &[u8]) -> String {
    let d = format!("{:?}", v);
    format!("value bytes ({}): {}\nvalue tree: {}", bytes.len(), vcommon::hex(&bytes[..bytes.len().min(600)]), d.chars().take(1500).collect::<String>())
}

fn value_case(rt: &mut Runtime, tape: &[u8], mutate: bool) -> Outcome {
    let mut t = Tape::new(tape);
    if rt.targets.is_empty() {
        return Outcome::fail("harness:no-types", "the batch has no value types");
    }
    let tg = rt.targets[t.below(rt.targets.len())].clone();
    let module = rt.prep.modules[tg.module].clone();
    if !rt.module_usable(&module) {
        return Outcome::Pass(PassInfo { nontrivial: false, fp: 0, classes: vec!["value:type-unavailable(module-did-not-compile)"] });
    }
    let units: Vec<Unit> = rt.units_of(tg.group, "base").into_iter().cloned().collect();
    let env = Env { units: units.iter().collect() };
    let unit = env.unit(&tg.schema).unwrap();
    let nodes = batch::nodes(&unit.model);
    let node = &nodes[tg.node];
    let (shape_a, shape_b) = contract::node_shape(&env, &tg.schema, node);
    let mut classes: Vec<&'static str> = vec![];

    let start = t.clone();
    let (tree, facts, applied) = if mutate {
        // first pass counts the mutation sites, second pass sabotages one of them
        let mut t1 = start.clone();
        let mut g = ValueGen::new(&env, &mut t1, None);
        let _ = g.node_value(&tg.schema, node);
        let sites = g.sites;
        let kinds: Vec<usize> = (0..4).filter(|k| sites[*k] > 0).collect();
        if kinds.is_empty() {
            return Outcome::Pass(PassInfo { nontrivial: false, fp: 0, classes: vec!["mutation:no-site"] });
        }
        // the mutation kind first (so that rare kinds get their share), then one of its sites
        let salt = tape.last().copied().unwrap_or(0) as usize * 251 + tape.len();
        let kind = kinds[salt % kinds.len()];
        let k = (kind, (salt / 7) % sites[kind]);
        let mut t2 = start.clone();
        let mut g = ValueGen::new(&env, &mut t2, Some(k));
        let tree = g.node_value(&tg.schema, node);
        (tree, g.facts.clone(), g.applied)
    } else {
        let mut t1 = start.clone();
        let mut g = ValueGen::new(&env, &mut t1, None);
        let tree = g.node_value(&tg.schema, node);
        (tree, g.facts.clone(), None)
    };
    let bytes = rc::encode(&tree);
    let fp = vcommon::mix(fingerprint(tg.key.as_bytes()), fingerprint(&bytes));
    if rc::depth(&tree) > 30 {
        return Outcome::Pass(PassInfo { nontrivial: false, fp, classes: vec!["value:too-deep(skipped)"] });
    }
    let reply = rt.request(|s| s.decode_then_encode(&tg.key, &bytes));
    let ctx_text = || format!("type {} of schema `{}` (crate {})\n{}", tg.key, tg.schema, rt_dir(&module), describe(&tree, &bytes));

    if mutate {
        let Some(sab) = applied else {
            return Outcome::Pass(PassInfo { nontrivial: false, fp, classes: vec!["mutation:not-applied"] });
        };
        classes.push(sab.label());
        return match reply {
            Reply::Err(_) => {
                classes.push("mutation:rejected");
                Outcome::Pass(PassInfo { nontrivial: shape_a && shape_b, fp, classes })
            }
            Reply::Ok(out) => Outcome::fail(
                format!("accepts-nonconforming:{}", sab.label().trim_start_matches("mutation:")),
                format!("a value with {} was accepted and re-encoded as {}\n{}", sab.label(), vcommon::hex(&out[..out.len().min(300)]), ctx_text()),
            ),
            Reply::Panic(m) => Outcome::fail("generated-code-panic:decode", format!("{m}\n{}", ctx_text())),
            Reply::NoType => Outcome::fail("harness:registry-miss", ctx_text()),
            Reply::Dead(m) => Outcome::fail("oracle-server-died", format!("{m}\n{}", ctx_text())),
        };
    }

    match reply {
        Reply::Ok(out) => {
            let got = match rc::decode_all(&out, Mode::Strict) {
                Ok(d) => rc::sem(&d.tree),
                Err(e) => {
                    return Outcome::fail("reencode:malformed", format!("the re-encoded bytes are not a well-formed value: {:?}\nre-encoded: {}\n{}", e, vcommon::hex(&out), ctx_text()))
                }
            };
            let want = contract::expect_node(&env, &tg.schema, node, &tree);
            if got != want {
                let kind = match node.kind {
                    NodeKind::Struct => "struct",
                    NodeKind::Enum => "enum",
                    NodeKind::Newtype => "newtype",
                    NodeKind::Service => "service",
                };
                let what = if facts.unknown_fields_kept > 0 || facts.unknown_variants_kept > 0 { "with-unknown-kept" } else { "plain" };
                return Outcome::fail(
                    format!("roundtrip:meaning-differs:{kind}:{what}"),
                    format!(
                        "decode -> encode changed the meaning\nexpected: {}\n     got: {}\nre-encoded: {}\n{}",
                        format!("{:?}", want).chars().take(1200).collect::<String>(),
                        format!("{:?}", got).chars().take(1200).collect::<String>(),
                        vcommon::hex(&out[..out.len().min(600)]),
                        ctx_text()
                    ),
                );
            }
            classes.push("value:roundtrip-ok");
            if facts.epoch1 {
                classes.push("value:epoch1");
            }
            if facts.epoch2 {
                classes.push("value:epoch2");
            }
            if facts.unknown_fields_kept > 0 {
                classes.push("value:unknown-fields-kept");
            }
            if facts.unknown_fields > facts.unknown_fields_kept {
                classes.push("value:unknown-fields-dropped");
            }
            if facts.unknown_variants_kept > 0 {
                classes.push("value:unknown-variant-kept");
            }
            if facts.optional_none > 0 {
                classes.push("value:optional-none");
            }
            if facts.optional_absent > 0 {
                classes.push("value:optional-absent");
            }
            if facts.optional_some > 0 {
                classes.push("value:optional-some");
            }
            classes.push(match node.kind {
                NodeKind::Struct => "value:struct",
                NodeKind::Enum => "value:enum",
                _ => "value:newtype",
            });
            if node.inline_of.is_some() {
                classes.push("value:inline-type");
            }
            if tg.group >= batch::GROUPS_PER_BATCH {
                classes.push("value:upstream-test-schema-type");
            } else if tg.schema != rt.batch.groups[tg.group].main.name {
                classes.push("value:imported-schema-type");
            }
            let nontrivial = shape_a && shape_b;
            if nontrivial {
                classes.push("value:nontrivial-type");
            }
            Outcome::Pass(PassInfo { nontrivial, fp, classes })
        }
        Reply::Err(m) => Outcome::fail(
            format!("rejects-conforming:{}", m.split(':').next().unwrap_or("error")),
            format!("a conforming value was rejected: {m}\n{}", ctx_text()),
        ),
        Reply::Panic(m) => Outcome::fail("generated-code-panic:decode", format!("{m}\n{}", ctx_text())),
        Reply::NoType => Outcome::fail("harness:registry-miss", ctx_text()),
        Reply::Dead(m) => Outcome::fail("oracle-server-died", format!("{m}\n{}", ctx_text())),
    }
}

fn rt_dir(m: &Module) -> String {
    format!("src/{}", m.file)
}

/// A value of the newer schema passes through the older type (with fallback) and back.
fn oldnew_case(rt: &mut Runtime, tape: &[u8]) -> Outcome {
    let mut t = Tape::new(tape);
    // (group, variant) pairs with a "members added" variant whose older main schema has at least
    // one struct/enum with a fallback
    let cands: Vec<(usize, String)> = rt
        .batch
        .groups
        .iter()
        .filter(|g| {
            batch::nodes(&g.main.model).iter().any(|n| match &n.body {
                batch::NodeBody::Struct(b) => b.fallback.is_some(),
                batch::NodeBody::Enum(b) => b.fallback.is_some(),
                _ => false,
            })
        })
        .filter_map(|g| g.variants.iter().find(|v| v.label == "edit:members-added").map(|v| (g.index, v.tag.clone())))
        .collect();
    if cands.is_empty() {
        return Outcome::Pass(PassInfo { nontrivial: false, fp: 0, classes: vec!["oldnew:no-candidate"] });
    }
    let (gi, tag) = cands[t.below(cands.len())].clone();
    let main_name = rt.batch.groups[gi].main.name.clone();
    let (Some(old_m), Some(new_m)) = (rt.find_module(gi, "base", &main_name), rt.find_module(gi, &tag, &main_name)) else {
        return Outcome::Pass(PassInfo { nontrivial: false, fp: 0, classes: vec!["oldnew:type-unavailable(module-did-not-compile)"] });
    };
    if !rt.module_usable(&rt.prep.modules[old_m].clone()) || !rt.module_usable(&rt.prep.modules[new_m].clone()) {
        return Outcome::Pass(PassInfo { nontrivial: false, fp: 0, classes: vec!["oldnew:type-unavailable(module-did-not-compile)"] });
    }
    let old_units: Vec<Unit> = rt.units_of(gi, "base").into_iter().cloned().collect();
    let new_units: Vec<Unit> = rt.units_of(gi, &tag).into_iter().cloned().collect();
    let old_env = Env { units: old_units.iter().collect() };
    let new_env = Env { units: new_units.iter().collect() };
    let old_nodes = batch::nodes(&old_env.unit(&main_name).unwrap().model);
    let new_nodes = batch::nodes(&new_env.unit(&main_name).unwrap().model);
    // types of the main schema whose older version has a fallback (struct or enum)
    let with_fallback: Vec<usize> = old_nodes
        .iter()
        .enumerate()
        .filter(|(_, n)| match &n.body {
            batch::NodeBody::Struct(b) => b.fallback.is_some(),
            batch::NodeBody::Enum(b) => b.fallback.is_some(),
            _ => false,
        })
        .map(|(i, _)| i)
        .collect();
    if with_fallback.is_empty() {
        return Outcome::Pass(PassInfo { nontrivial: false, fp: 0, classes: vec!["oldnew:no-type-with-fallback"] });
    }
    let oi = with_fallback[t.below(with_fallback.len())];
    let name = old_nodes[oi].name.clone();
    let Some(new_node) = new_nodes.iter().find(|n| n.name == name) else {
        return Outcome::Pass(PassInfo { nontrivial: false, fp: 0, classes: vec!["oldnew:no-counterpart"] });
    };
    // every type reachable from here must keep unknown members too: the newer schema only grew
    // members in types whose older version may lack a fallback, so restrict the *value* instead:
    // members that only exist in the newer schema are populated only at the top level type
    let mut g = ValueGen::new(&new_env, &mut t, None);
    let tree = g.node_value(&main_name, new_node);
    let facts = g.facts.clone();
    let bytes = rc::encode(&tree);
    let old_key = gencrate::type_key(gi, "base", &main_name, &name);
    let new_key = gencrate::type_key(gi, &tag, &main_name, &name);
    let fp = vcommon::mix(fingerprint(old_key.as_bytes()), fingerprint(&bytes));
    if rc::depth(&tree) > 30 {
        return Outcome::Pass(PassInfo { nontrivial: false, fp, classes: vec!["value:too-deep(skipped)"] });
    }
    // nested types without fallback in the older schema legitimately drop the new members: only
    // use values whose nested types all have fallbacks or carry no newer-only members
    if !survivable(&old_env, &new_env, &main_name, &old_nodes[oi], new_node, &tree) {
        return Outcome::Pass(PassInfo { nontrivial: false, fp, classes: vec!["oldnew:nested-type-without-fallback(skipped)"] });
    }
    let info = || format!("newer type {new_key}, older type {old_key}\n{}", describe(&tree, &bytes));
    let through_old = match rt.request(|s| s.decode_then_encode(&old_key, &bytes)) {
        Reply::Ok(b) => b,
        Reply::Err(m) => return Outcome::fail("oldnew:older-type-rejects-newer-value", format!("{m}\n{}", info())),
        Reply::Panic(m) => return Outcome::fail("generated-code-panic:decode", format!("{m}\n{}", info())),
        Reply::NoType => return Outcome::fail("harness:registry-miss", info()),
        Reply::Dead(m) => return Outcome::fail("oracle-server-died", format!("{m}\n{}", info())),
    };
    let back = match rt.request(|s| s.decode_then_encode(&new_key, &through_old)) {
        Reply::Ok(b) => b,
        Reply::Err(m) => return Outcome::fail("oldnew:newer-type-rejects-value-from-older", format!("{m}\nvia older type: {}\n{}", vcommon::hex(&through_old), info())),
        Reply::Panic(m) => return Outcome::fail("generated-code-panic:decode", format!("{m}\n{}", info())),
        Reply::NoType => return Outcome::fail("harness:registry-miss", info()),
        Reply::Dead(m) => return Outcome::fail("oracle-server-died", format!("{m}\n{}", info())),
    };
    let got = match rc::decode_all(&back, Mode::Strict) {
        Ok(d) => rc::sem(&d.tree),
        Err(e) => return Outcome::fail("reencode:malformed", format!("{:?}\n{}", e, info())),
    };
    let want = contract::expect_node(&new_env, &main_name, new_node, &tree);
    if got != want {
        return Outcome::fail(
            "oldnew:value-changed",
            format!(
                "a value of the newer schema did not survive the older type with fallback\nexpected: {}\n     got: {}\nvia older type: {}\n{}",
                format!("{:?}", want).chars().take(1200).collect::<String>(),
                format!("{:?}", got).chars().take(1200).collect::<String>(),
                vcommon::hex(&through_old[..through_old.len().min(400)]),
                info()
            ),
        );
    }
    let mut classes = vec!["oldnew:survived"];
    let newer_members = newer_only_members(&old_nodes[oi], new_node, &tree);
    if newer_members {
        classes.push("oldnew:newer-members-present");
    }
    if facts.unknown_fields_kept > 0 {
        classes.push("oldnew:plus-unknown-fields");
    }
    Outcome::Pass(PassInfo { nontrivial: newer_members, fp, classes })
}

/// Does the value carry a member (field / variant) that only the newer schema knows, at the top
/// level of the type?
fn newer_only_members(old: &batch::Node, new: &batch::Node, v: &rc::RTree) -> bool {
    match (&old.body, &new.body, v) {
        (batch::NodeBody::Struct(o), batch::NodeBody::Struct(n), rc::RTree::Struct(_, _, fields)) => fields.iter().any(|(id, _)| {
            let known_new = n.fields.iter().any(|f| f.id.parse::<u64>().ok() == Some(id.raw));
            let known_old = o.fields.iter().any(|f| f.id.parse::<u64>().ok() == Some(id.raw));
            known_new && !known_old
        }),
        (batch::NodeBody::Enum(o), batch::NodeBody::Enum(n), rc::RTree::Enum(id, _)) => {
            n.variants.iter().any(|x| x.id.parse::<u64>().ok() == Some(id.raw)) && !o.variants.iter().any(|x| x.id.parse::<u64>().ok() == Some(id.raw))
        }
        _ => false,
    }
}

/// The property promises survival for types with a fallback. A nested value of a type that has
/// no fallback in the older schema may legitimately lose members only the newer schema knows; such
/// values are outside the claim. This walks the value along the *older* schema and answers whether
/// every nested struct/enum that carries newer-only or unknown members has a fallback there.
fn survivable(old_env: &Env, new_env: &Env, ctx: &str, old: &batch::Node, new: &batch::Node, v: &rc::RTree) -> bool {
    use crate::model::Ty;
    fn ty(old_env: &Env, new_env: &Env, ctx: &str, t_old: &Ty, t_new: &Ty, v: &rc::RTree) -> bool {
        match (t_old, t_new, v) {
            (Ty::Gen1(_, a), Ty::Gen1(_, b), rc::RTree::Some(x)) => ty(old_env, new_env, ctx, a, b, x),
            (Ty::Gen1("box", a), Ty::Gen1("box", b), _) => ty(old_env, new_env, ctx, a, b, v),
            (Ty::Gen1(_, a), Ty::Gen1(_, b), rc::RTree::Vec(_, _, elems)) => elems.iter().all(|e| ty(old_env, new_env, ctx, a, b, e)),
            (Ty::Array(a, _), Ty::Array(b, _), rc::RTree::Vec(_, _, elems)) => elems.iter().all(|e| ty(old_env, new_env, ctx, a, b, e)),
            (Ty::Map(_, a), Ty::Map(_, b), rc::RTree::Map(_, _, _, entries)) => entries.iter().all(|(_, e)| ty(old_env, new_env, ctx, a, b, e)),
            (Ty::Result(a1, a2), Ty::Result(b1, b2), rc::RTree::Enum(id, x)) => {
                if id.raw == 0 {
                    ty(old_env, new_env, ctx, a1, b1, x)
                } else {
                    ty(old_env, new_env, ctx, a2, b2, x)
                }
            }
            (Ty::Ref(s, n), Ty::Ref(s2, n2), _) => {
                let o = old_env.resolve(ctx, s, n);
                let nn = new_env.resolve(ctx, s2, n2);
                match (o, nn) {
                    (Some(contract::Resolved::Struct(ob, oc)), Some(contract::Resolved::Struct(nb, _))) => st(old_env, new_env, oc, ob, nb, v),
                    (Some(contract::Resolved::Enum(ob, oc)), Some(contract::Resolved::Enum(nb, _))) => en(old_env, new_env, oc, ob, nb, v),
                    (Some(contract::Resolved::Newtype(ot, oc)), Some(contract::Resolved::Newtype(nt, _))) => ty(old_env, new_env, oc, ot, nt, v),
                    _ => true,
                }
            }
            _ => true,
        }
    }
    fn st(old_env: &Env, new_env: &Env, ctx: &str, o: &crate::model::StructBody, n: &crate::model::StructBody, v: &rc::RTree) -> bool {
        let rc::RTree::Struct(_, _, fields) = v else { return true };
        for (id, val) in fields {
            let fo = o.fields.iter().find(|f| f.id.parse::<u64>().ok() == Some(id.raw));
            let fnew = n.fields.iter().find(|f| f.id.parse::<u64>().ok() == Some(id.raw));
            match (fo, fnew) {
                (Some(a), Some(b)) => {
                    let inner = match (a.required, val) {
                        (true, x) => Some(x),
                        (false, rc::RTree::Some(x)) => Some(&**x),
                        _ => None,
                    };
                    if let Some(x) = inner {
                        if !ty(old_env, new_env, ctx, &a.ty, &b.ty, x) {
                            return false;
                        }
                    }
                }
                // a member the older type does not know: survives only through a fallback
                (None, _) => {
                    if o.fallback.is_none() {
                        // unknown to both: dropped by the newer type as well when it has no
                        // fallback either - then nothing is lost that the expectation keeps
                        if fnew.is_some() || n.fallback.is_some() {
                            return false;
                        }
                    }
                }
                (Some(_), None) => {}
            }
        }
        true
    }
    fn en(old_env: &Env, new_env: &Env, ctx: &str, o: &crate::model::EnumBody, n: &crate::model::EnumBody, v: &rc::RTree) -> bool {
        let rc::RTree::Enum(id, payload) = v else { return true };
        let vo = o.variants.iter().find(|x| x.id.parse::<u64>().ok() == Some(id.raw));
        let vn = n.variants.iter().find(|x| x.id.parse::<u64>().ok() == Some(id.raw));
        match (vo, vn) {
            (Some(a), Some(b)) => match (&a.ty, &b.ty) {
                (Some(ta), Some(tb)) => ty(old_env, new_env, ctx, ta, tb, payload),
                _ => true,
            },
            (None, _) => o.fallback.is_some(),
            _ => true,
        }
    }
    match (&old.body, &new.body) {
        (batch::NodeBody::Struct(o), batch::NodeBody::Struct(n)) => st(old_env, new_env, ctx, o, n, v),
        (batch::NodeBody::Enum(o), batch::NodeBody::Enum(n)) => en(old_env, new_env, ctx, o, n, v),
        _ => true,
    }
}
