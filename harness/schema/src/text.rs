//! Text for comment and doc lines: a plain pool (odd white space, CR, multi-byte, look-alike
//! syntax) and a markdown-adversarial generator aimed at the doc-link span arithmetic.

use vcommon::Tape;

/// Names that doc links may point at; overlaps with the generator's definition/field pools so
/// that some links resolve and others do not.
pub const LINK_NAMES: &[&str] = &[
    "Foo", "Bar", "Baz", "Qux", "Item", "Node", "Svc", "Api", "N", "SIZE", "a", "b", "get", "set", "changed",
    "Nope", "A", "x", "self", "args", "ok", "err",
];

pub const LINK_SCHEMAS: &[&str] = &["a", "b", "c", "other", "main", "nope", "self"];

/// A path that looks like a doc link (only `[:_A-Za-z0-9]`), well-formed or not.
pub fn link_path(t: &mut Tape) -> String {
    let n = |t: &mut Tape| (*t.pick(LINK_NAMES)).to_string();
    match t.below(14) {
        0 => n(t),
        1 => format!("{}::{}", n(t), n(t)),
        2 => format!("self::{}", n(t)),
        3 => format!("::{}::{}", t.pick(LINK_SCHEMAS), n(t)),
        4 => format!("{}::{}::{}", n(t), n(t), n(t)),
        5 => format!("{}::{}::args::{}", n(t), n(t), n(t)),
        6 => format!("{}::{}::ok", n(t), n(t)),
        7 => format!("::{}", t.pick(LINK_SCHEMAS)),
        8 => "::".to_string(),
        9 => format!("{}::", n(t)),
        10 => format!("::{}::", t.pick(LINK_SCHEMAS)),
        11 => format!("{}::::{}", n(t), n(t)),
        12 => format!("self::{}::{}::err::{}", n(t), n(t), n(t)),
        _ => format!(":{}", n(t)),
    }
}

const PLAIN: &[&str] = &[
    "",
    " text",
    " a comment with words",
    "no leading space",
    "  two leading spaces",
    " trailing spaces   ",
    "\ttab first",
    " a\tb",
    " caf\u{e9} \u{2192} \u{1F600}",
    " \u{200b}zero\u{200d}width",
    "\u{a0}nbsp\u{a0}",
    " x\ry",
    " ends with cr\r",
    " // nested comment",
    " /// nested doc",
    " //! nested inner doc",
    " #[attr(opt)]",
    " struct X {}",
    " }",
    " {",
    " \"quote",
    " back\\slash",
    " import a;",
    " */ /*",
    " \u{2028}line sep\u{85}nel",
    " \u{3000}",
    " \u{feff}bom",
    " e\u{301} combining",
    "\r",
    " \0nul",
    " - list item",
    " # heading",
    " `code`",
    " *emph* **strong**",
    " 1. first",
    " | a | b |",
    " > quote",
    "     indented code",
    " <b>html</b>",
    " fn f @ 1;",
];

/// One comment line (without the `//` introducer and without the line ending). Never starts
/// with `/` or `!` (that would make it a doc string) and never contains `\n`.
pub fn comment_line(t: &mut Tape) -> String {
    let s = plain_line(t);
    if s.starts_with('/') || s.starts_with('!') {
        format!(" {s}")
    } else {
        s
    }
}

fn plain_line(t: &mut Tape) -> String {
    let i = t.below(PLAIN.len() + 2);
    if i < PLAIN.len() {
        PLAIN[i].to_string()
    } else {
        // two pool entries glued together
        format!("{}{}", t.pick(PLAIN), t.pick(PLAIN))
    }
}

/// One doc line for the plain mode: plain text, sometimes with a link.
pub fn doc_line(t: &mut Tape) -> String {
    match t.below(8) {
        0..=3 => plain_line(t),
        4 => format!(" See [{}].", t.pick(LINK_NAMES)),
        5 => format!(" [`{}`] and [x]({})", link_path(t), link_path(t)),
        6 => format!(" [{}]", link_path(t)),
        _ => format!("/{}", plain_line(t)),
    }
}

const SAFE_DOCS: &[&str] = &[
    "", " text", " Some words about this item.", " - list item", " # Heading", " `code` and *emphasis*", " 1. first",
    " caf\u{e9} \u{2192} ok", " > quote", " | a | b |", " line with trailing spaces   ",
];

/// A doc line without `"` and `\`: plain markdown, sometimes with a (resolving or broken) link.
pub fn safe_doc_line(t: &mut Tape) -> String {
    match t.below(6) {
        0..=2 => ps(t, SAFE_DOCS).to_string(),
        3 => format!(" See [{}].", ps(t, LINK_NAMES)),
        4 => format!(" [`{}`] and [x]({})", link_path(t), link_path(t)),
        _ => format!(" [{}]", link_path(t)),
    }
}

const MB: &[&str] = &[
    "\u{e4}", "\u{d6}", "\u{2192}", "\u{1F600}", "\u{200b}", "\u{a0}", "\u{fffd}", "e\u{301}", "\u{202e}", "\u{4e2d}",
    "\u{10ffff}", "\u{80}", "\u{7ff}", "\u{800}", "\u{2028}", "\u{85}",
];

const FRAG: &[&str] = &[
    "[", "]", "(", ")", "](", "[]", "[`", "`]", "`", "``", "```", "\\", "\\[", "\\]", "\\`", "!", "![", "<", ">",
    "<http://a.b>", "http://x.y/z", "www.x.y", "[^1]", "[^1]:", "[^n]", "[x]:", ":", "::", "|", "| a | b |", "|---|---|",
    "|:-:|", "- ", "* ", "+ ", "1. ", "1) ", "> ", "# ", "## ", "    ", "\t", " ", "  ", "\r", "\0", "~~", "~", "**", "*",
    "_", "__", "\"", "'", "--", "---", "...", "&amp;", "&#x41;", "&#0;", "&", "[ ]", "[x]", "- [ ] ", "- [x] ", "===",
    "<!--", "-->", "<a href=\"", "\">", "</a>", "<br>", "$", "$$", "{", "}", "=", "word", "a b c", "0", "://",
];

/// A doc block (consecutive doc lines that the parser joins with `\n` before handing them to
/// the markdown parser) built to stress link detection and the mapping of markdown positions
/// back to source spans: inline links, reference links and definitions, images, footnotes,
/// tables, task lists, unbalanced backticks and brackets, `\r` and NUL inside lines, tabs, and
/// multi-byte characters adjacent to link boundaries. Lines never contain `\n`.
pub fn adversarial_block(t: &mut Tape) -> Vec<String> {
    let n = 1 + t.below(5);
    let mut lines = vec![];
    for _ in 0..n {
        lines.push(adversarial_line(t));
    }
    // multi-line constructs: a link or code span that is opened on one line and closed on a later one
    if t.chance(60) && lines.len() >= 2 {
        let p = link_path(t);
        let (open, close): (String, String) = match t.below(6) {
            0 => ("[".into(), "]".into()),
            1 => ("[x](".into(), ")".into()),
            2 => ("[".into(), format!("]({p})")),
            3 => ("`".into(), "`".into()),
            4 => (format!("[{p}"), "]".into()),
            _ => ("[x](<".into(), ">)".into()),
        };
        let i = t.below(lines.len() - 1);
        lines[i].push_str(&open);
        let j = i + 1 + t.below(lines.len() - 1 - i);
        if t.bool() {
            lines[j].insert_str(0, &close);
        } else {
            lines[j].push_str(&close);
        }
    }
    lines
}

fn mb(t: &mut Tape) -> &'static str {
    ps(t, MB)
}

/// Picks one string of a pool.
pub fn ps(t: &mut Tape, pool: &[&'static str]) -> &'static str {
    pool[t.below(pool.len())]
}

fn link(t: &mut Tape) -> String {
    let p = link_path(t);
    let q = link_path(t);
    match t.below(26) {
        0 => format!("[{p}]"),
        1 => format!("[`{p}`]"),
        2 => format!("[text]({p})"),
        3 => format!("[{p}][]"),
        4 => format!("[a][{p}]"),
        5 => format!("[{p}]: {q}"),
        6 => format!("[{}{p}{}]", mb(t), mb(t)),
        7 => format!("{}[{p}]{}", mb(t), mb(t)),
        8 => format!("[{p}]({})", mb(t)),
        9 => format!("[x]({p} \"title\")"),
        10 => format!("[x](<{p}>)"),
        11 => format!("[\r]({p}"),
        12 => format!("[{p}\r]"),
        13 => format!("[te\rxt]({p})"),
        14 => format!("![img]({p})"),
        15 => format!("[[{p}]]"),
        16 => format!("[{p}]({q})"),
        17 => format!("[`{p}]"),
        18 => "[`]".to_string(),
        19 => format!("[{}]({p})", mb(t)),
        20 => format!("\0[{p}]"),
        21 => format!("\t[{p}]"),
        22 => format!("[{p}]\r"),
        23 => format!("<{p}>"),
        24 => format!("[x]({p}{})", mb(t)),
        _ => format!("*[{p}]* ~~[{q}]~~"),
    }
}

fn adversarial_line(t: &mut Tape) -> String {
    let mut s = String::new();
    match t.below(4) {
        0 => {}
        1 | 2 => s.push(' '),
        _ => s.push_str(ps(t, &["  ", "\t", "    ", "> ", "- ", "\0", "\r", "| "])),
    }
    let n = 1 + t.below(7);
    for _ in 0..n {
        match t.below(10) {
            0..=3 => s.push_str(&link(t)),
            4..=6 => s.push_str(ps(t, FRAG)),
            7 => s.push_str(mb(t)),
            8 => s.push_str(&link_path(t)),
            _ => s.push(' '),
        }
    }
    if t.chance(40) {
        s.push_str(ps(t, &[" ", "  ", "\r", "\t", "\\", "\u{a0}"]));
    }
    s
}
