//! vschema: checks over the schema front end (parser, diagnostics, formatter, code generator).
fn main() {
    vcommon::main(&[&schema::c16::DEF, &schema::c17::DEF, &schema::c18::DEF, &schema::c20::DEF])
}
