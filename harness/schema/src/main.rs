//! vschema: checks over the schema front end (parser, diagnostics, formatter, code generator).
#![allow(dead_code)]
mod batch;
mod c16;
mod c17;
mod c18;
mod c20;
mod contract;
mod front;
mod gencrate;
mod irslots;
mod model;
mod print;
mod repo;
mod text;
mod upstream;

fn main() {
    vcommon::main(&[&c16::DEF, &c17::DEF, &c18::DEF, &c20::DEF])
}
