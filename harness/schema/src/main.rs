//! vschema: checks over the schema front end (parser, diagnostics, formatter, code generator).
#![allow(dead_code)]
mod c17;
mod c18;
mod front;
mod model;
mod print;
mod repo;
mod text;

fn main() {
    vcommon::main(&[&c17::DEF, &c18::DEF])
}
