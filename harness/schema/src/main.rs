//! vschema: checks over the schema front end (parser, diagnostics, formatter, code generator).
#![allow(dead_code)]
mod batch;
mod c16;
mod c17;
mod c18;
mod c20;
mod contract;
mod front;
mod gencrate;
mod irslots;
mod model;
mod print;
mod repo;
mod text;
mod upstream;

fn main() {
    if std::env::args().nth(1).as_deref() == Some("gencrate-probe") {
        vcommon::install_panic_hook();
        let seed = std::env::args().nth(2).and_then(|s| s.parse().ok()).unwrap_or(1);
        let id = batch::BatchId { seed, thorough: false, index: 0 };
        let b = batch::generate_batch(id);
        let t0 = std::time::Instant::now();
        let prep = gencrate::prepare(&b);
        println!("prepared {} modules, {} problems in {:.1}s", prep.modules.len(), prep.problems.len(), t0.elapsed().as_secs_f64());
        for p in &prep.problems {
            println!("problem g{} {} {}: {}\n{}", p.group, p.variant, p.schema, p.signature, p.detail);
        }
        let types: usize = prep.modules.iter().map(|m| m.types.len()).sum();
        let bytes: usize = prep.modules.iter().map(|m| m.rust.len()).sum();
        println!("{} registry entries, {} bytes of Rust", types, bytes);
        let r = gencrate::ensure_built(&id.key(), &prep);
        println!("build: {:.1}s rounds={} binary={:?} infra={:?}", r.seconds, r.rounds, r.binary, r.infra);
        for (f, e) in &r.failed_modules {
            println!("FAILED MODULE {f}:\n{e}");
        }
        if let Some(bin) = &r.binary {
            let mut s = gencrate::Server::spawn(bin).unwrap();
            println!("server entries {}", s.entries);
            let k = &prep.modules[0].types.first().map(|t| t.0.clone()).unwrap_or_default();
            println!("{k}: {:?}", s.type_id(k));
        }
        return;
    }
    vcommon::main(&[&c16::DEF, &c17::DEF, &c18::DEF, &c20::DEF])
}
