//! `gencrate`: compile-and-run pipeline for generated Rust. A batch's schemas are parsed and run
//! through `aldrin_codegen::Generator::rust` in-process; the modules plus a generated registry
//! (one entry per generated type: type-erased decode-then-encode, type id, introspection bytes)
//! are written into a scratch crate under `$VERIF_ROOT/work/gencrate/<batch>` that depends on
//! `<repo>/aldrin` (features `macros`, `introspection`); the crate is built once per batch
//! (`cargo build --offline`, shared target directory, guarded by a lock file so that exactly one
//! process builds while the others wait) and its binary is then run as an oracle server that
//! answers requests over stdin/stdout.

use crate::batch::{self, Batch, Group, NodeKind, Unit};
use crate::front::{self, Input, Other};
use aldrin_codegen::{Generator, Options, RustOptions};
use std::collections::BTreeMap;
use std::io::{BufRead, BufReader, Write};
use std::path::{Path, PathBuf};
use std::process::{Child, ChildStdin, ChildStdout, Command, Stdio};
use vcommon::catch;

/// One generated Rust module.
#[derive(Debug, Clone)]
pub struct Module {
    pub group: usize,
    /// "base" or a variant tag.
    pub variant: String,
    pub schema: String,
    /// Path below `src/`, e.g. `g03/base/main.rs`.
    pub file: String,
    pub source: String,
    pub rust: String,
    /// Registry keys of the types and services this module defines.
    pub types: Vec<(String, NodeKind)>,
}

#[derive(Debug, Clone)]
pub struct Problem {
    pub group: usize,
    pub variant: String,
    pub schema: String,
    pub signature: String,
    pub detail: String,
}

#[derive(Debug, Default)]
pub struct Prepared {
    pub modules: Vec<Module>,
    /// Schemas that could not be used: parser errors (generator defect or excluded) and panics /
    /// errors of the code generator (violations).
    pub problems: Vec<Problem>,
}

pub fn type_key(group: usize, variant: &str, schema: &str, ty: &str) -> String {
    format!("g{group:02}/{variant}/{schema}::{ty}")
}

fn input_for(unit: &Unit, deps: &[Unit], source: String) -> Input {
    Input {
        name: unit.name.clone(),
        source,
        others: deps
            .iter()
            .filter(|d| d.name != unit.name)
            .map(|d| Other { name: d.name.clone(), source: Some(batch::source_of(d, crate::print::Style::plain())) })
            .collect(),
    }
}

fn codegen(prep: &mut Prepared, group: usize, variant: &str, unit: &Unit, deps: &[Unit], source: String) {
    let input = input_for(unit, deps, source.clone());
    let problem = |sig: String, detail: String| Problem { group, variant: variant.to_string(), schema: unit.name.clone(), signature: sig, detail };
    let parser = match catch(|| front::parse(&input)) {
        Ok(p) => p,
        Err(p) => {
            prep.problems.push(problem(format!("panic:parse:{}", front::loc(&p)), p.0));
            return;
        }
    };
    if !parser.errors().is_empty() {
        let r = front::plain_renderer();
        let text: Vec<String> = parser.errors().iter().take(3).map(|e| catch(|| r.render(e, &parser)).unwrap_or_default()).collect();
        prep.problems.push(problem("generator:schema-has-errors".into(), text.join("\n")));
        return;
    }
    let mut o = Options::new();
    o.client = true;
    o.server = true;
    o.introspection = true;
    let ro = RustOptions::new();
    let out = match catch(|| Generator::new(&o, &parser).rust(&ro)) {
        Ok(Ok(out)) => out,
        Ok(Err(e)) => {
            prep.problems.push(problem("codegen:error".into(), format!("{e:?}")));
            return;
        }
        Err(p) => {
            prep.problems.push(problem(format!("panic:codegen:{}", front::loc(&p)), p.0));
            return;
        }
    };
    let types = batch::nodes(&unit.model).iter().map(|n| (type_key(group, variant, &unit.name, &n.name), n.kind)).collect();
    prep.modules.push(Module {
        group,
        variant: variant.to_string(),
        schema: unit.name.clone(),
        file: format!("g{group:02}/{variant}/{}.rs", unit.name),
        source,
        rust: out.module_content,
        types,
    });
}

/// Parses every schema of the batch and generates its Rust module.
pub fn prepare(b: &Batch) -> Prepared {
    let mut prep = Prepared::default();
    for g in &b.groups {
        prepare_group(&mut prep, g);
    }
    prep
}

fn prepare_group(prep: &mut Prepared, g: &Group) {
    let plain = crate::print::Style::plain();
    // every schema of the group is resolvable for every other one (only imported ones are read)
    let mut all: Vec<Unit> = g.deps.clone();
    all.push(g.main.clone());
    for d in &g.deps {
        codegen(prep, g.index, "base", d, &all, batch::source_of(d, plain));
    }
    codegen(prep, g.index, "base", &g.main, &g.deps, batch::source_of(&g.main, g.style));
    for v in &g.variants {
        codegen(prep, g.index, &v.tag, &v.main, &g.deps, batch::source_of(&v.main, v.style));
    }
}

// ---------------------------------------------------------------------------------------------
// crate text

const SERVER_MAIN: &str = r##"// Oracle server: generated by the verification harness (harness/schema/src/gencrate.rs).
#![allow(warnings)]

use aldrin::core::introspection::{Introspectable, Introspection};
use aldrin::core::tags::PrimaryTag;
use aldrin::core::message::{MessageOps, SendItem};
use aldrin::core::{Deserialize, Serialize, SerializedValue, TypeId};
use std::collections::HashMap;
use std::io::{BufRead, Write};

pub struct Entry {
    pub dte: Option<fn(&[u8]) -> Result<Vec<u8>, String>>,
    pub tid: fn() -> [u8; 16],
    pub intro: fn() -> Vec<u8>,
}

fn dte<T>(bytes: &[u8]) -> Result<Vec<u8>, String>
where
    T: PrimaryTag + Deserialize<<T as PrimaryTag>::Tag>,
    for<'a> &'a T: Serialize<<T as PrimaryTag>::Tag>,
{
    // the way untrusted bytes enter the system: as the payload of a received message frame
    if bytes.is_empty() {
        return Err("deserialize: empty value".to_string());
    }
    let total = 4 + 1 + 4 + bytes.len() + 16;
    let mut frame = Vec::with_capacity(total);
    frame.extend_from_slice(&(total as u32).to_le_bytes());
    frame.push(27); // SendItem
    frame.extend_from_slice(&(bytes.len() as u32).to_le_bytes());
    frame.extend_from_slice(bytes);
    frame.extend_from_slice(&[0u8; 16]);
    let msg = SendItem::deserialize_message(bytes::BytesMut::from(&frame[..])).map_err(|e| format!("frame: {e:?}"))?;
    let value: T = msg
        .value
        .deserialize_as::<<T as PrimaryTag>::Tag, T>()
        .map_err(|e| format!("deserialize: {e:?}"))?;
    let back = SerializedValue::serialize_as::<<T as PrimaryTag>::Tag>(&value).map_err(|e| format!("serialize: {e:?}"))?;
    let slice: &[u8] = back.as_ref();
    Ok(slice.to_vec())
}

fn tid<T: Introspectable>() -> [u8; 16] {
    *TypeId::compute::<T>().0.as_bytes()
}

fn intro<T: Introspectable>() -> Vec<u8> {
    let rec = Introspection::new::<T>();
    let sv = SerializedValue::serialize(&rec).expect("serialize introspection");
    let slice: &[u8] = sv.as_ref();
    slice.to_vec()
}

pub fn value_type<T>() -> Entry
where
    T: PrimaryTag + Deserialize<<T as PrimaryTag>::Tag> + Introspectable,
    for<'a> &'a T: Serialize<<T as PrimaryTag>::Tag>,
{
    Entry { dte: Some(dte::<T>), tid: tid::<T>, intro: intro::<T> }
}

pub fn service_type<T: Introspectable>() -> Entry {
    Entry { dte: None, tid: tid::<T>, intro: intro::<T> }
}

mod registry;
MODULE_TREE

fn hex(b: &[u8]) -> String {
    let mut s = String::with_capacity(b.len() * 2);
    for x in b {
        s.push_str(&format!("{:02x}", x));
    }
    s
}

fn unhex(s: &str) -> Option<Vec<u8>> {
    let b = s.as_bytes();
    if b.len() % 2 != 0 {
        return None;
    }
    let mut out = Vec::with_capacity(b.len() / 2);
    for i in (0..b.len()).step_by(2) {
        let h = (b[i] as char).to_digit(16)?;
        let l = (b[i + 1] as char).to_digit(16)?;
        out.push((h * 16 + l) as u8);
    }
    Some(out)
}

fn main() {
    // generated types may hold large arrays by value: serve on a thread with a roomy stack
    let t = std::thread::Builder::new().stack_size(1 << 30).spawn(serve).expect("spawn server thread");
    let _ = t.join();
}

fn serve() {
    let entries: HashMap<&'static str, Entry> = registry::entries().into_iter().collect();
    std::panic::set_hook(Box::new(|_| {}));
    let stdin = std::io::stdin();
    let stdout = std::io::stdout();
    let mut out = stdout.lock();
    let _ = writeln!(out, "READY {}", entries.len());
    let _ = out.flush();
    for line in stdin.lock().lines() {
        let Ok(line) = line else { break };
        let mut it = line.splitn(3, ' ');
        let cmd = it.next().unwrap_or("");
        let key = it.next().unwrap_or("");
        let arg = it.next().unwrap_or("");
        let reply = match entries.get(key) {
            None => format!("NOTYPE {key}"),
            Some(e) => {
                let res = std::panic::catch_unwind(|| match cmd {
                    "D" => match (e.dte, unhex(arg)) {
                        (Some(f), Some(bytes)) => match f(&bytes) {
                            Ok(b) => format!("OK {}", hex(&b)),
                            Err(m) => format!("ERR {m}"),
                        },
                        _ => "BAD".to_string(),
                    },
                    "T" => format!("OK {}", hex(&(e.tid)())),
                    "I" => format!("OK {}", hex(&(e.intro)())),
                    _ => "BAD".to_string(),
                });
                match res {
                    Ok(r) => r,
                    Err(p) => {
                        let msg = p.downcast_ref::<&str>().map(|s| s.to_string()).or_else(|| p.downcast_ref::<String>().cloned()).unwrap_or_default();
                        format!("PANIC {}", msg.replace('\n', " "))
                    }
                }
            }
        };
        let _ = writeln!(out, "{reply}");
        let _ = out.flush();
    }
}
"##;

fn raw(name: &str) -> String {
    format!("r#{name}")
}

/// Module tree: `pub mod gNN { pub mod base { pub mod r#a; pub mod r#main; } pub mod perm { pub
/// use super::base::r#a; pub mod r#main; } .. }`. Modules declared inside inline modules of
/// `main.rs` are looked up at `src/gNN/<variant>/<schema>.rs`.
fn module_tree(mods: &[&Module]) -> String {
    let mut groups: BTreeMap<usize, BTreeMap<String, Vec<&Module>>> = BTreeMap::new();
    for m in mods {
        groups.entry(m.group).or_default().entry(m.variant.clone()).or_default().push(m);
    }
    let mut s = String::new();
    for (g, variants) in &groups {
        s.push_str(&format!("pub mod g{g:02} {{\n"));
        let base_schemas: Vec<String> = variants.get("base").map(|v| v.iter().map(|m| m.schema.clone()).collect()).unwrap_or_default();
        for (variant, ms) in variants {
            s.push_str(&format!("    pub mod {variant} {{\n"));
            if variant != "base" {
                // dependencies are shared with the base variant
                for dep in &base_schemas {
                    if !ms.iter().any(|m| &m.schema == dep) {
                        s.push_str(&format!("        pub use super::base::{};\n", raw(dep)));
                    }
                }
            }
            for m in ms {
                s.push_str(&format!("        pub mod {};\n", raw(&m.schema)));
            }
            s.push_str("    }\n");
        }
        s.push_str("}\n");
    }
    s
}

fn registry(mods: &[&Module]) -> String {
    let mut s = String::from("// generated\nuse crate::{service_type, value_type, Entry};\n\npub fn entries() -> Vec<(&'static str, Entry)> {\n    let mut v: Vec<(&'static str, Entry)> = Vec::new();\n");
    for m in mods {
        for (key, kind) in &m.types {
            let ty = key.rsplit("::").next().unwrap();
            let path = format!("crate::g{:02}::{}::{}", m.group, m.variant, raw(&m.schema));
            match kind {
                // the service type (like its proxy) delegates `Introspectable` to the macro's private
                // `<Service>Introspection` type
                NodeKind::Service => s.push_str(&format!("    v.push(({key:?}, service_type::<{path}::{}>()));\n", raw(ty))),
                _ => s.push_str(&format!("    v.push(({key:?}, value_type::<{path}::{}>()));\n", raw(ty))),
            }
        }
    }
    s.push_str("    v\n}\n");
    s
}

pub fn work_root() -> PathBuf {
    vcommon::verif_root().join("work").join("gencrate")
}

fn write_if_changed(path: &Path, content: &str) -> std::io::Result<()> {
    if let Ok(old) = std::fs::read_to_string(path) {
        if old == content {
            return Ok(());
        }
    }
    if let Some(p) = path.parent() {
        std::fs::create_dir_all(p)?;
    }
    std::fs::write(path, content)
}

fn write_crate(dir: &Path, name: &str, mods: &[&Module]) -> std::io::Result<()> {
    let repo = vcommon::repo_root();
    let manifest = format!(
        "[package]\nname = \"{name}\"\nversion = \"0.0.0\"\nedition = \"2021\"\n\n[workspace]\n\n[dependencies]\naldrin = {{ path = \"{}\", default-features = false, features = [\"macros\", \"introspection\"] }}\nbytes = \"1\"\n\n[profile.dev]\nopt-level = 0\ndebug = 0\nincremental = false\ndebug-assertions = true\noverflow-checks = true\n",
        repo.join("aldrin").display()
    );
    write_if_changed(&dir.join("Cargo.toml"), &manifest)?;
    if !dir.join("Cargo.lock").exists() {
        // pin the dependency versions to what the repository uses (and what is cached offline)
        let _ = std::fs::copy(repo.join("Cargo.lock"), dir.join("Cargo.lock"));
    }
    // remove module files of an earlier, different content
    let src = dir.join("src");
    let _ = std::fs::create_dir_all(&src);
    write_if_changed(&src.join("main.rs"), &SERVER_MAIN.replace("MODULE_TREE", &module_tree(mods)))?;
    write_if_changed(&src.join("registry.rs"), &registry(mods))?;
    for m in mods {
        write_if_changed(&src.join(&m.file), &m.rust)?;
        // the schema next to its module, for people reading a failure
        write_if_changed(&src.join(m.file.replace(".rs", ".aldrin")), &m.source)?;
    }
    Ok(())
}

/// (module file, first error lines) per module that rustc complained about; errors that cannot
/// be attributed to a module are returned under the empty key.
fn attribute_errors(stderr: &str) -> BTreeMap<String, String> {
    let mut out: BTreeMap<String, String> = BTreeMap::new();
    let mut cur: Vec<&str> = vec![];
    let mut blocks: Vec<Vec<&str>> = vec![];
    for l in stderr.lines() {
        if l.starts_with("error") {
            if !cur.is_empty() {
                blocks.push(std::mem::take(&mut cur));
            }
            cur.push(l);
        } else if !cur.is_empty() {
            if l.starts_with("warning") {
                blocks.push(std::mem::take(&mut cur));
            } else {
                cur.push(l);
            }
        }
    }
    if !cur.is_empty() {
        blocks.push(cur);
    }
    for b in blocks {
        if b[0].starts_with("error: could not compile") || b[0].starts_with("error: aborting") {
            continue;
        }
        let mut file = String::new();
        for l in &b {
            if let Some(i) = l.find("--> src/") {
                let rest = &l[i + 8..];
                let path = rest.split(':').next().unwrap_or("");
                if path.starts_with('g') && path.ends_with(".rs") {
                    file = path.to_string();
                    break;
                }
            }
        }
        let text = b.iter().take(14).cloned().collect::<Vec<_>>().join("\n");
        let e = out.entry(file).or_default();
        if e.len() < 3000 {
            e.push_str(&text);
            e.push('\n');
        }
    }
    out
}

#[derive(Debug, Clone, Default)]
pub struct BuildReport {
    pub binary: Option<PathBuf>,
    /// module file -> rustc diagnostics
    pub failed_modules: BTreeMap<String, String>,
    /// build trouble that is not attributable to a generated module (harness trouble)
    pub infra: Option<String>,
    pub seconds: f64,
    pub rounds: u32,
}

/// Fingerprint of the repository crates the generated crate is compiled against (sources and
/// manifests of aldrin, core, macros, codegen, parser, and the lock file). A build report is only
/// trusted for the repository state that produced it: after any change there (a fix, a
/// sensitivity mutant) the crate goes through `cargo build` again.
fn run_token() -> String {
    static FP: std::sync::OnceLock<String> = std::sync::OnceLock::new();
    FP.get_or_init(|| {
        fn walk(dir: &Path, out: &mut Vec<PathBuf>, depth: u32) {
            if depth > 8 {
                return;
            }
            let Ok(rd) = std::fs::read_dir(dir) else { return };
            for e in rd.flatten() {
                let p = e.path();
                let name = e.file_name().to_string_lossy().to_string();
                if p.is_dir() {
                    if name != "target" && !name.starts_with('.') {
                        walk(&p, out, depth + 1);
                    }
                } else if name.ends_with(".rs") || name.ends_with(".toml") || name.ends_with(".pest") || name.ends_with(".lock") {
                    out.push(p);
                }
            }
        }
        let root = vcommon::repo_root();
        let mut files = vec![root.join("Cargo.toml"), root.join("Cargo.lock")];
        for c in ["aldrin", "core", "macros", "codegen", "parser"] {
            walk(&root.join(c), &mut files, 0);
        }
        files.sort();
        let mut acc = 0u64;
        for f in files {
            let content = std::fs::read(&f).unwrap_or_default();
            acc = vcommon::mix(acc, vcommon::mix(vcommon::fingerprint(f.to_string_lossy().as_bytes()), vcommon::fingerprint(&content)));
        }
        format!("{acc:016x}")
    })
    .clone()
}

fn report_path(dir: &Path) -> PathBuf {
    dir.join("build-report.json")
}

fn save_report(dir: &Path, r: &BuildReport) {
    let j = serde_json::json!({
        "binary": r.binary.as_ref().map(|p| p.to_string_lossy().to_string()),
        "failed_modules": r.failed_modules,
        "infra": r.infra,
        "seconds": r.seconds,
        "rounds": r.rounds,
        "run": run_token(),
    });
    let tmp = dir.join("build-report.json.tmp");
    let _ = std::fs::write(&tmp, serde_json::to_string_pretty(&j).unwrap());
    let _ = std::fs::rename(&tmp, report_path(dir));
}

fn load_report(dir: &Path) -> Option<BuildReport> {
    let text = std::fs::read_to_string(report_path(dir)).ok()?;
    let j: serde_json::Value = serde_json::from_str(&text).ok()?;
    if j["run"].as_str() != Some(run_token().as_str()) {
        return None;
    }
    let mut r = BuildReport::default();
    r.binary = j["binary"].as_str().map(PathBuf::from);
    if let Some(m) = j["failed_modules"].as_object() {
        for (k, v) in m {
            r.failed_modules.insert(k.clone(), v.as_str().unwrap_or("").to_string());
        }
    }
    r.infra = j["infra"].as_str().map(|s| s.to_string());
    r.seconds = j["seconds"].as_f64().unwrap_or(0.0);
    r.rounds = j["rounds"].as_u64().unwrap_or(0) as u32;
    if let Some(b) = &r.binary {
        if !b.is_file() {
            return None;
        }
    }
    Some(r)
}

fn fingerprint_of(mods: &[Module]) -> u64 {
    let mut b = vec![];
    for m in mods {
        b.extend_from_slice(m.file.as_bytes());
        b.push(0);
        b.extend_from_slice(m.rust.as_bytes());
        b.push(0);
    }
    b.extend_from_slice(SERVER_MAIN.as_bytes());
    b.extend_from_slice(vcommon::repo_root().to_string_lossy().as_bytes());
    vcommon::fingerprint(&b)
}

fn cargo_build(dir: &Path) -> (bool, String) {
    let target = work_root().join("target");
    let out = Command::new("cargo")
        .arg("build")
        .arg("--offline")
        .arg("--color")
        .arg("never")
        .current_dir(dir)
        .env("CARGO_TARGET_DIR", &target)
        .env("CARGO_NET_OFFLINE", "true")
        .env_remove("RUSTFLAGS")
        .env_remove("CARGO_ENCODED_RUSTFLAGS")
        .env("CARGO_BUILD_RUSTFLAGS", "")
        .stdin(Stdio::null())
        .output();
    match out {
        Ok(o) => (o.status.success(), String::from_utf8_lossy(&o.stderr).to_string()),
        Err(e) => (false, format!("cannot run cargo: {e}")),
    }
}

/// Builds the batch's crate unless an up-to-date build report exists. Exactly one process
/// builds; concurrent callers wait for its report.
pub fn ensure_built(batch_key: &str, prep: &Prepared) -> BuildReport {
    let fp = fingerprint_of(&prep.modules);
    let dir = work_root().join(format!("{batch_key}-{fp:016x}"));
    let _ = std::fs::create_dir_all(&dir);
    if let Some(r) = load_report(&dir) {
        return r;
    }
    let lock = dir.join("build.lock");
    let mine = std::fs::OpenOptions::new().write(true).create_new(true).open(&lock);
    match mine {
        Ok(mut f) => {
            let _ = writeln!(f, "{}", std::process::id());
            let r = build_rounds(&dir, batch_key, prep);
            save_report(&dir, &r);
            let _ = std::fs::remove_file(&lock);
            r
        }
        Err(_) => {
            // somebody else builds: wait for the report; take over if the builder died
            let mut waited = 0u64;
            loop {
                if let Some(r) = load_report(&dir) {
                    return r;
                }
                std::thread::sleep(std::time::Duration::from_millis(250));
                waited += 250;
                let builder_alive = std::fs::read_to_string(&lock)
                    .ok()
                    .and_then(|s| s.trim().parse::<u32>().ok())
                    .map(|pid| Path::new(&format!("/proc/{pid}")).exists());
                match builder_alive {
                    Some(true) => {}
                    Some(false) => {
                        let _ = std::fs::remove_file(&lock);
                        return ensure_built(batch_key, prep);
                    }
                    None => {
                        if !lock.exists() && load_report(&dir).is_none() && waited > 2000 {
                            return ensure_built(batch_key, prep);
                        }
                    }
                }
                if waited > 1_500_000 {
                    return BuildReport { infra: Some("timed out waiting for the batch build".into()), ..Default::default() };
                }
            }
        }
    }
}

fn build_rounds(dir: &Path, batch_key: &str, prep: &Prepared) -> BuildReport {
    let start = std::time::Instant::now();
    let crate_name = format!("gencrate-{}", batch_key.replace('.', "-"));
    let mut report = BuildReport::default();
    let mut excluded: Vec<String> = vec![];
    for round in 0..6 {
        report.rounds = round + 1;
        // a module that failed drags its whole group-variant down; variants import base modules,
        // so a failing base module removes the group
        let usable: Vec<&Module> = prep
            .modules
            .iter()
            .filter(|m| {
                !excluded.iter().any(|f| {
                    *f == m.file || (f.contains("/base/") && f.starts_with(&format!("g{:02}/", m.group)))
                })
            })
            .collect();
        if let Err(e) = write_crate(dir, &crate_name, &usable) {
            report.infra = Some(format!("cannot write the crate: {e}"));
            break;
        }
        let (ok, stderr) = cargo_build(dir);
        if ok {
            let bin = work_root().join("target").join("debug").join(&crate_name);
            // keep a private copy: the shared target directory is reused by other batches
            // one copy per repository state; a copy that exists was built from the same sources
            let token = run_token();
            let copy = dir.join(format!("oracle-server-{token}"));
            if copy.is_file() {
                report.binary = Some(copy);
                break;
            }
            if let Ok(rd) = std::fs::read_dir(dir) {
                for e in rd.flatten() {
                    if e.file_name().to_string_lossy().starts_with("oracle-server-") {
                        // stale copies (other repository states); a copy still being executed
                        // stays alive until its process exits
                        let _ = std::fs::remove_file(e.path());
                    }
                }
            }
            match std::fs::copy(&bin, &copy) {
                Ok(_) => report.binary = Some(copy),
                Err(e) => report.infra = Some(format!("cannot copy {}: {e}", bin.display())),
            }
            break;
        }
        let errs = attribute_errors(&stderr);
        let mut progress = false;
        for (file, text) in errs {
            if file.is_empty() {
                continue;
            }
            if !excluded.contains(&file) {
                excluded.push(file.clone());
                progress = true;
            }
            report.failed_modules.entry(file).or_insert(text);
        }
        if !progress {
            let tail: Vec<&str> = stderr.lines().rev().take(40).collect();
            report.infra = Some(format!("cargo build failed without an attributable module:\n{}", tail.into_iter().rev().collect::<Vec<_>>().join("\n")));
            break;
        }
    }
    if report.binary.is_none() && report.infra.is_none() {
        report.infra = Some("crate still does not build after removing the failing modules".into());
    }
    report.seconds = start.elapsed().as_secs_f64();
    report
}

// ---------------------------------------------------------------------------------------------
// oracle server client

pub struct Server {
    child: Child,
    stdin: ChildStdin,
    stdout: BufReader<ChildStdout>,
    pub entries: usize,
    pub last_request: String,
}

#[derive(Debug, Clone, PartialEq, Eq)]
pub enum Reply {
    Ok(Vec<u8>),
    /// The generated type refused the value (decode or encode error).
    Err(String),
    Panic(String),
    NoType,
    /// The server died or answered garbage.
    Dead(String),
}

impl Server {
    pub fn spawn(binary: &Path) -> Result<Server, String> {
        let mut child = Command::new(binary)
            .stdin(Stdio::piped())
            .stdout(Stdio::piped())
            .stderr(Stdio::null())
            .spawn()
            .map_err(|e| format!("cannot start {}: {e}", binary.display()))?;
        let stdin = child.stdin.take().unwrap();
        let mut stdout = BufReader::new(child.stdout.take().unwrap());
        let mut line = String::new();
        stdout.read_line(&mut line).map_err(|e| e.to_string())?;
        let entries = line.trim().strip_prefix("READY ").and_then(|n| n.parse().ok()).ok_or_else(|| format!("unexpected greeting {line:?}"))?;
        Ok(Server { child, stdin, stdout, entries, last_request: String::new() })
    }

    fn request(&mut self, line: &str) -> Reply {
        if std::env::var_os("VERIF_DEBUG").is_some() {
            self.last_request = line.chars().take(400).collect();
        }
        if writeln!(self.stdin, "{line}").is_err() || self.stdin.flush().is_err() {
            return Reply::Dead("write failed".into());
        }
        let mut resp = String::new();
        match self.stdout.read_line(&mut resp) {
            Ok(0) => Reply::Dead(format!("server exited: {:?}", self.child.try_wait())),
            Err(e) => Reply::Dead(e.to_string()),
            Ok(_) => {
                let resp = resp.trim_end();
                if let Some(h) = resp.strip_prefix("OK ") {
                    match vcommon::unhex(h) {
                        Some(b) => Reply::Ok(b),
                        None => Reply::Dead(format!("bad hex in reply {resp:?}")),
                    }
                } else if resp == "OK" {
                    Reply::Ok(vec![])
                } else if let Some(m) = resp.strip_prefix("ERR ") {
                    Reply::Err(m.to_string())
                } else if let Some(m) = resp.strip_prefix("PANIC") {
                    Reply::Panic(m.trim().to_string())
                } else if resp.starts_with("NOTYPE") {
                    Reply::NoType
                } else {
                    Reply::Dead(format!("unexpected reply {resp:?}"))
                }
            }
        }
    }

    pub fn decode_then_encode(&mut self, key: &str, bytes: &[u8]) -> Reply {
        self.request(&format!("D {key} {}", vcommon::hex(bytes)))
    }

    pub fn type_id(&mut self, key: &str) -> Reply {
        self.request(&format!("T {key}"))
    }

    pub fn introspection(&mut self, key: &str) -> Reply {
        self.request(&format!("I {key}"))
    }
}

impl Drop for Server {
    fn drop(&mut self) {
        let _ = self.child.kill();
        let _ = self.child.wait();
    }
}
