//! Hand-built introspection IR for generated schemas: the schema model is translated to
//! `aldrin_core::introspection::ir` builders (no generated code involved) and type ids are
//! computed with `TypeId::compute_from_dyn`. `DynIntrospectable` holds plain `fn` pointers, so
//! every type expression of a schema group - custom types, services and each distinct built-in
//! composite such as `option<vec<Foo>>` - is installed in a thread-local table behind one of 256
//! const-generic slot types whose `layout()` / `add_references()` read the table.

use crate::batch::{self, NodeBody, NodeKind, Unit};
use crate::contract::Env;
use crate::model::*;
use aldrin_core::introspection::ir::{
    ArrayTypeIr, BuiltInTypeIr, EnumFallbackIr, EnumIr, EventFallbackIr, EventIr, FieldIr, FunctionFallbackIr, FunctionIr, LayoutIr,
    MapTypeIr, NewtypeIr, ResultTypeIr, ServiceIr, StructFallbackIr, StructIr, VariantIr,
};
use aldrin_core::introspection::{DynIntrospectable, Introspectable, LexicalId, References};
use aldrin_core::{ServiceUuid, TypeId};
use std::cell::RefCell;
use std::collections::BTreeMap;

pub const SLOTS: usize = 256;

#[derive(Default)]
struct Table {
    layouts: Vec<Option<LayoutIr>>,
    refs: Vec<Vec<usize>>,
}

thread_local! {
    static TABLE: RefCell<Table> = RefCell::new(Table::default());
}

pub struct Slot<const N: usize>;

impl<const N: usize> Introspectable for Slot<N> {
    fn layout() -> LayoutIr {
        TABLE.with(|t| t.borrow().layouts[N].clone().expect("harness: slot layout"))
    }

    fn lexical_id() -> LexicalId {
        Self::layout().lexical_id()
    }

    fn add_references(references: &mut References) {
        let refs = TABLE.with(|t| t.borrow().refs[N].clone());
        for j in refs {
            references.add_dyn(dyn_slot(j));
        }
    }
}

fn dyn_slot(i: usize) -> DynIntrospectable {
    macro_rules! arms {
        ($($n:literal)*) => {
            match i {
                $( $n => DynIntrospectable::new::<Slot<$n>>(), )*
                _ => panic!("harness: slot index out of range"),
            }
        };
    }
    arms!(0 1 2 3 4 5 6 7 8 9 10 11 12 13 14 15 16 17 18 19 20 21 22 23 24 25 26 27 28 29 30 31 32 33 34 35 36 37 38 39 40 41 42 43 44 45 46 47 48 49 50 51 52 53 54 55 56 57 58 59 60 61 62 63 64 65 66 67 68 69 70 71 72 73 74 75 76 77 78 79 80 81 82 83 84 85 86 87 88 89 90 91 92 93 94 95 96 97 98 99 100 101 102 103 104 105 106 107 108 109 110 111 112 113 114 115 116 117 118 119 120 121 122 123 124 125 126 127 128 129 130 131 132 133 134 135 136 137 138 139 140 141 142 143 144 145 146 147 148 149 150 151 152 153 154 155 156 157 158 159 160 161 162 163 164 165 166 167 168 169 170 171 172 173 174 175 176 177 178 179 180 181 182 183 184 185 186 187 188 189 190 191 192 193 194 195 196 197 198 199 200 201 202 203 204 205 206 207 208 209 210 211 212 213 214 215 216 217 218 219 220 221 222 223 224 225 226 227 228 229 230 231 232 233 234 235 236 237 238 239 240 241 242 243 244 245 246 247 248 249 250 251 252 253 254 255)
}

/// The translation of one schema group.
pub struct Ir {
    /// (schema, node name) -> slot
    pub nodes: BTreeMap<(String, String), usize>,
    layouts: Vec<Option<LayoutIr>>,
    refs: Vec<Vec<usize>>,
    keys: BTreeMap<String, usize>,
    pub overflow: bool,
}

fn prim(k: &str) -> Option<(BuiltInTypeIr, LexicalId)> {
    Some(match k {
        "bool" => (BuiltInTypeIr::Bool, LexicalId::BOOL),
        "u8" => (BuiltInTypeIr::U8, LexicalId::U8),
        "i8" => (BuiltInTypeIr::I8, LexicalId::I8),
        "u16" => (BuiltInTypeIr::U16, LexicalId::U16),
        "i16" => (BuiltInTypeIr::I16, LexicalId::I16),
        "u32" => (BuiltInTypeIr::U32, LexicalId::U32),
        "i32" => (BuiltInTypeIr::I32, LexicalId::I32),
        "u64" => (BuiltInTypeIr::U64, LexicalId::U64),
        "i64" => (BuiltInTypeIr::I64, LexicalId::I64),
        "f32" => (BuiltInTypeIr::F32, LexicalId::F32),
        "f64" => (BuiltInTypeIr::F64, LexicalId::F64),
        "string" => (BuiltInTypeIr::String, LexicalId::STRING),
        "uuid" => (BuiltInTypeIr::Uuid, LexicalId::UUID),
        "object_id" => (BuiltInTypeIr::ObjectId, LexicalId::OBJECT_ID),
        "service_id" => (BuiltInTypeIr::ServiceId, LexicalId::SERVICE_ID),
        "value" => (BuiltInTypeIr::Value, LexicalId::VALUE),
        "bytes" => (BuiltInTypeIr::Bytes, LexicalId::BYTES),
        "lifetime" => (BuiltInTypeIr::Lifetime, LexicalId::LIFETIME),
        "unit" => (BuiltInTypeIr::Unit, LexicalId::UNIT),
        _ => return None,
    })
}

impl Ir {
    fn alloc(&mut self, key: String) -> Result<usize, usize> {
        if let Some(i) = self.keys.get(&key) {
            return Err(*i);
        }
        let i = self.layouts.len();
        if i >= SLOTS {
            self.overflow = true;
            return Err(0);
        }
        self.layouts.push(None);
        self.refs.push(vec![]);
        self.keys.insert(key, i);
        Ok(i)
    }

    /// Lexical id of a type expression appearing in schema `ctx`.
    pub fn lex(env: &Env, ctx: &str, t: &Ty) -> LexicalId {
        match t {
            Ty::Kw(k) => prim(k).map(|p| p.1).unwrap_or(LexicalId::NIL),
            Ty::Gen1("option", a) => LexicalId::option(Self::lex(env, ctx, a)),
            Ty::Gen1("box", a) => LexicalId::box_ty(Self::lex(env, ctx, a)),
            // the Rust generator maps vec<u8> to its byte-string type
            Ty::Gen1("vec", a) if matches!(**a, Ty::Kw("u8")) => LexicalId::BYTES,
            Ty::Gen1("vec", a) => LexicalId::vec(Self::lex(env, ctx, a)),
            Ty::Gen1("set", a) => LexicalId::set(Self::lex(env, ctx, a)),
            Ty::Gen1("sender", a) => LexicalId::sender(Self::lex(env, ctx, a)),
            Ty::Gen1("receiver", a) => LexicalId::receiver(Self::lex(env, ctx, a)),
            Ty::Gen1(_, a) => Self::lex(env, ctx, a),
            Ty::Map(k, v) => LexicalId::map(Self::lex(env, ctx, k), Self::lex(env, ctx, v)),
            Ty::Result(a, b) => LexicalId::result(Self::lex(env, ctx, a), Self::lex(env, ctx, b)),
            Ty::Array(e, len) => LexicalId::array(Self::lex(env, ctx, e), env.array_len(ctx, len).unwrap_or(0) as u32),
            Ty::Ref(s, n) => LexicalId::custom(s.as_deref().unwrap_or(ctx), n),
        }
    }

    fn key_of(ctx: &str, t: &Ty) -> String {
        match t {
            Ty::Kw(k) => k.to_string(),
            Ty::Gen1(g, a) => format!("{g}<{}>", Self::key_of(ctx, a)),
            Ty::Map(k, v) => format!("map<{}->{}>", Self::key_of(ctx, k), Self::key_of(ctx, v)),
            Ty::Result(a, b) => format!("result<{},{}>", Self::key_of(ctx, a), Self::key_of(ctx, b)),
            Ty::Array(e, len) => format!(
                "[{};{}]",
                Self::key_of(ctx, e),
                match len {
                    ArrLen::Lit(l) => l.clone(),
                    ArrLen::Ref(s, n) => format!("{}::{}", s.as_deref().unwrap_or(ctx), n),
                }
            ),
            Ty::Ref(s, n) => format!("@{}::{}", s.as_deref().unwrap_or(ctx), n),
        }
    }

    /// Slot of a type expression (allocating it and everything it refers to).
    fn ty_slot(&mut self, env: &Env, ctx: &str, t: &Ty) -> usize {
        if let Ty::Ref(s, n) = t {
            let schema = s.as_deref().unwrap_or(ctx).to_string();
            return self.node_slot(env, &schema, n);
        }
        let key = Self::key_of(ctx, t);
        let i = match self.alloc(key) {
            Ok(i) => i,
            Err(i) => return i,
        };
        let (layout, refs): (BuiltInTypeIr, Vec<usize>) = match t {
            Ty::Kw(k) => (prim(k).map(|p| p.0).unwrap_or(BuiltInTypeIr::Unit), vec![]),
            Ty::Gen1("vec", a) if matches!(**a, Ty::Kw("u8")) => (BuiltInTypeIr::Bytes, vec![]),
            Ty::Gen1(g, a) => {
                let inner = Self::lex(env, ctx, a);
                let r = vec![self.ty_slot(env, ctx, a)];
                let l = match *g {
                    "option" => BuiltInTypeIr::Option(inner),
                    "box" => BuiltInTypeIr::Box(inner),
                    "vec" => BuiltInTypeIr::Vec(inner),
                    "set" => BuiltInTypeIr::Set(inner),
                    "sender" => BuiltInTypeIr::Sender(inner),
                    _ => BuiltInTypeIr::Receiver(inner),
                };
                (l, r)
            }
            Ty::Map(k, v) => {
                let l = BuiltInTypeIr::Map(MapTypeIr::new(Self::lex(env, ctx, k), Self::lex(env, ctx, v)));
                (l, vec![self.ty_slot(env, ctx, k), self.ty_slot(env, ctx, v)])
            }
            Ty::Result(a, b) => {
                let l = BuiltInTypeIr::Result(ResultTypeIr::new(Self::lex(env, ctx, a), Self::lex(env, ctx, b)));
                (l, vec![self.ty_slot(env, ctx, a), self.ty_slot(env, ctx, b)])
            }
            Ty::Array(e, len) => {
                let l = BuiltInTypeIr::Array(ArrayTypeIr::new(Self::lex(env, ctx, e), env.array_len(ctx, len).unwrap_or(0) as u32));
                (l, vec![self.ty_slot(env, ctx, e)])
            }
            Ty::Ref(..) => unreachable!(),
        };
        if !self.overflow {
            self.layouts[i] = Some(layout.into());
            self.refs[i] = refs;
        }
        i
    }

    fn struct_layout(&mut self, env: &Env, schema: &str, name: &str, b: &StructBody) -> (LayoutIr, Vec<usize>) {
        let mut sb = StructIr::builder(schema, name);
        let mut refs = vec![];
        for f in &b.fields {
            let id: u32 = f.id.parse().unwrap_or(0);
            sb = sb.field(FieldIr::builder(id, &f.name, f.required, Self::lex(env, schema, &f.ty)).finish());
            refs.push(self.ty_slot(env, schema, &f.ty));
        }
        if let Some(fb) = &b.fallback {
            sb = sb.fallback(StructFallbackIr::builder(&fb.name).finish());
        }
        (sb.finish().into(), refs)
    }

    fn enum_layout(&mut self, env: &Env, schema: &str, name: &str, b: &EnumBody) -> (LayoutIr, Vec<usize>) {
        let mut eb = EnumIr::builder(schema, name);
        let mut refs = vec![];
        for v in &b.variants {
            let id: u32 = v.id.parse().unwrap_or(0);
            let mut vb = VariantIr::builder(id, &v.name);
            if let Some(t) = &v.ty {
                vb = vb.variant_type(Self::lex(env, schema, t));
                refs.push(self.ty_slot(env, schema, t));
            }
            eb = eb.variant(vb.finish());
        }
        if let Some(fb) = &b.fallback {
            eb = eb.fallback(EnumFallbackIr::builder(&fb.name).finish());
        }
        (eb.finish().into(), refs)
    }

    /// Slot of a named type or service of `schema`.
    fn node_slot(&mut self, env: &Env, schema: &str, name: &str) -> usize {
        let key = format!("@{schema}::{name}");
        let i = match self.alloc(key) {
            Ok(i) => i,
            Err(i) => return i,
        };
        self.nodes.insert((schema.to_string(), name.to_string()), i);
        let Some(unit) = env.unit(schema) else {
            return i;
        };
        let nodes = batch::nodes(&unit.model);
        let Some(n) = nodes.iter().find(|n| n.name == name) else {
            return i;
        };
        let (layout, refs): (LayoutIr, Vec<usize>) = match &n.body {
            NodeBody::Struct(b) => self.struct_layout(env, schema, name, b),
            NodeBody::Enum(b) => self.enum_layout(env, schema, name, b),
            NodeBody::Newtype(t) => {
                let l = NewtypeIr::builder(schema, name, Self::lex(env, schema, t)).finish().into();
                (l, vec![self.ty_slot(env, schema, t)])
            }
            NodeBody::Service(s) => {
                let uuid = uuid::Uuid::parse_str(&s.uuid).unwrap_or_default();
                let mut sb = ServiceIr::builder(schema, name, ServiceUuid(uuid), s.ver.parse().unwrap_or(0));
                let mut refs = vec![];
                let mut part = |this: &mut Ir, item: &str, suffix: &str, t: &TyOrInline| -> LexicalId {
                    match t {
                        TyOrInline::Ty(t) => {
                            refs.push(this.ty_slot(env, schema, t));
                            Self::lex(env, schema, t)
                        }
                        _ => {
                            let iname = batch::inline_name(&s.name, item, suffix);
                            refs.push(this.node_slot(env, schema, &iname));
                            LexicalId::custom(schema, &iname)
                        }
                    }
                };
                for item in &s.items {
                    match item {
                        Item::Fn(f) => {
                            let mut fb = FunctionIr::builder(f.id.parse().unwrap_or(0), &f.name);
                            match &f.body {
                                FnBody::Term => {}
                                FnBody::Ok(t) => fb = fb.ok(part(self, &f.name, "Ok", t)),
                                FnBody::Full { args, ok, err } => {
                                    if let Some(p) = args {
                                        fb = fb.args(part(self, &f.name, "Args", &p.ty));
                                    }
                                    if let Some(p) = ok {
                                        fb = fb.ok(part(self, &f.name, "Ok", &p.ty));
                                    }
                                    if let Some(p) = err {
                                        fb = fb.err(part(self, &f.name, "Error", &p.ty));
                                    }
                                }
                            }
                            sb = sb.function(fb.finish());
                        }
                        Item::Ev(e) => {
                            let mut eb = EventIr::builder(e.id.parse().unwrap_or(0), &e.name);
                            if let Some(t) = &e.ty {
                                eb = eb.event_type(part(self, &e.name, "Args", t));
                            }
                            sb = sb.event(eb.finish());
                        }
                    }
                }
                for (is_fn, fb) in &s.fallbacks {
                    if *is_fn {
                        sb = sb.function_fallback(FunctionFallbackIr::builder(&fb.name).finish());
                    } else {
                        sb = sb.event_fallback(EventFallbackIr::builder(&fb.name).finish());
                    }
                }
                (sb.finish().into(), refs)
            }
        };
        let _ = NodeKind::Struct;
        if !self.overflow {
            self.layouts[i] = Some(layout);
            self.refs[i] = refs;
        }
        i
    }

    /// Translates every named type and service of the given schemas.
    pub fn build(units: &[&Unit]) -> Ir {
        let env = Env { units: units.to_vec() };
        let mut ir = Ir { nodes: BTreeMap::new(), layouts: vec![], refs: vec![], keys: BTreeMap::new(), overflow: false };
        for u in units {
            for n in batch::nodes(&u.model) {
                ir.node_slot(&env, &u.name, &n.name);
            }
        }
        ir
    }

    fn install(&self) {
        TABLE.with(|t| {
            let mut t = t.borrow_mut();
            t.layouts = self.layouts.clone();
            t.refs = self.refs.clone();
        });
    }

    /// Type id of a node computed from the hand-built IR.
    pub fn type_id(&self, schema: &str, name: &str) -> Option<TypeId> {
        if self.overflow {
            return None;
        }
        let slot = *self.nodes.get(&(schema.to_string(), name.to_string()))?;
        self.install();
        Some(TypeId::compute_from_dyn(dyn_slot(slot)))
    }

    /// Type ids of the types a node refers to directly.
    pub fn direct_reference_ids(&self, schema: &str, name: &str) -> Option<Vec<TypeId>> {
        if self.overflow {
            return None;
        }
        let slot = *self.nodes.get(&(schema.to_string(), name.to_string()))?;
        self.install();
        Some(self.refs[slot].iter().map(|j| TypeId::compute_from_dyn(dyn_slot(*j))).collect())
    }

    pub fn slots_used(&self) -> usize {
        self.layouts.len()
    }
}
