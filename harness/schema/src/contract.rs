//! The wire contract of schema types, restated from the schema language (not from generated
//! code or its introspection), on top of the reference codec's trees:
//!
//! * `bool u8 .. i64 f32 f64 string uuid object_id service_id`: the value kind of the same name;
//!   `lifetime` = object id; `unit` = none; `value` = any value; `bytes` = a byte string;
//! * `option<T>` = none | some(T); `box<T>` and newtypes are transparent;
//! * `vec<T>` = sequence of T in either container encoding - except `vec<u8>`, which the Rust
//!   generator maps to its byte-string type, so it is a byte string on the wire; `[T; N]` = a
//!   sequence of exactly N elements (also for `u8`);
//! * `map<K -> T>` / `set<K>` = map / set keyed by K's key kind (key newtypes are transparent);
//! * `sender<T>` / `receiver<T>` = sender / receiver with a channel cookie;
//! * `result<T, E>` = enum with variant 0 carrying T or variant 1 carrying E;
//! * struct = struct value in either encoding whose fields are keyed by id: a required field
//!   carries a T; an optional field is absent, none, or some(T); ids the schema does not know are
//!   tolerated; enum = enum value whose variant id selects the payload type (none for variants
//!   without a type).
//!
//! After decoding into the generated type and encoding again the meaning must be the input's,
//! normalised: an optional field that was none is absent, unknown field ids are dropped unless the
//! struct has a fallback, in which case they (and unknown variants of enums with a fallback) are
//! kept.

use crate::batch::{Node, NodeBody, Unit};
use crate::model::*;
use codec::refcodec::{self as rc, Epoch, KeyKind, RKey, RTree, Sem, VarInt};
use std::collections::BTreeMap;
use vcommon::Tape;

pub struct Env<'a> {
    pub units: Vec<&'a Unit>,
}

pub enum Resolved<'a> {
    Struct(&'a StructBody, &'a str),
    Enum(&'a EnumBody, &'a str),
    Newtype(&'a Ty, &'a str),
}

impl<'a> Env<'a> {
    pub fn unit(&self, name: &str) -> Option<&'a Unit> {
        self.units.iter().copied().find(|u| u.name == name)
    }

    /// Resolves a named reference that appears in schema `ctx`; returns the definition and the
    /// schema it lives in.
    pub fn resolve(&self, ctx: &str, schema: &Option<String>, name: &str) -> Option<Resolved<'a>> {
        let u = self.unit(schema.as_deref().unwrap_or(ctx))?;
        for d in &u.model.defs {
            match d {
                Def::Struct { name: n, body, .. } if n == name => return Some(Resolved::Struct(body, &u.name)),
                Def::Enum { name: n, body, .. } if n == name => return Some(Resolved::Enum(body, &u.name)),
                Def::Newtype { name: n, ty, .. } if n == name => return Some(Resolved::Newtype(ty, &u.name)),
                _ => {}
            }
        }
        None
    }

    pub fn const_value(&self, ctx: &str, schema: &Option<String>, name: &str) -> Option<u64> {
        let u = self.unit(schema.as_deref().unwrap_or(ctx))?;
        for d in &u.model.defs {
            if let Def::Const { name: n, val: ConstVal::Int(_, lit), .. } = d {
                if n == name {
                    return lit.parse().ok();
                }
            }
        }
        None
    }

    pub fn array_len(&self, ctx: &str, len: &ArrLen) -> Option<u64> {
        match len {
            ArrLen::Lit(l) => l.parse().ok(),
            ArrLen::Ref(s, n) => self.const_value(ctx, s, n),
        }
    }

    /// Key kind of a type used in key position (primitives and key newtypes).
    pub fn key_kind(&self, ctx: &str, t: &Ty) -> Option<KeyKind> {
        match t {
            Ty::Kw(k) => Some(match *k {
                "u8" => KeyKind::U8,
                "i8" => KeyKind::I8,
                "u16" => KeyKind::U16,
                "i16" => KeyKind::I16,
                "u32" => KeyKind::U32,
                "i32" => KeyKind::I32,
                "u64" => KeyKind::U64,
                "i64" => KeyKind::I64,
                "string" => KeyKind::String,
                "uuid" => KeyKind::Uuid,
                _ => return None,
            }),
            Ty::Ref(s, n) => match self.resolve(ctx, s, n)? {
                Resolved::Newtype(t, c) => self.key_kind(c, t),
                _ => None,
            },
            _ => None,
        }
    }

    /// Type with `box<..>` and newtypes peeled off (what is actually on the wire) and the schema
    /// it belongs to.
    pub fn effective(&self, ctx: &str, t: &Ty) -> (Ty, String) {
        let mut t = t.clone();
        let mut ctx = ctx.to_string();
        for _ in 0..32 {
            match &t {
                Ty::Gen1("box", inner) => t = (**inner).clone(),
                Ty::Ref(s, n) => match self.resolve(&ctx, s, n) {
                    Some(Resolved::Newtype(inner, c)) => {
                        t = inner.clone();
                        ctx = c.to_string();
                    }
                    _ => break,
                },
                _ => break,
            }
        }
        (t, ctx)
    }
}

#[derive(Debug, Clone, Copy, PartialEq, Eq)]
pub enum Sabotage {
    DropRequiredField,
    WrongKind,
    UnknownVariantNoFallback,
    ArrayTooShort,
    ArrayTooLong,
}

impl Sabotage {
    pub fn label(self) -> &'static str {
        match self {
            Sabotage::DropRequiredField => "mutation:required-field-dropped",
            Sabotage::WrongKind => "mutation:wrong-kind",
            Sabotage::UnknownVariantNoFallback => "mutation:unknown-variant-no-fallback",
            Sabotage::ArrayTooShort => "mutation:array-too-short",
            Sabotage::ArrayTooLong => "mutation:array-too-long",
        }
    }
}

/// Statistics of one generated value.
#[derive(Debug, Default, Clone)]
pub struct Facts {
    pub epoch1: bool,
    pub epoch2: bool,
    pub unknown_fields: usize,
    pub unknown_fields_kept: usize,
    pub unknown_variants_kept: usize,
    pub optional_none: usize,
    pub optional_absent: usize,
    pub optional_some: usize,
    pub containers: usize,
    pub nodes: usize,
}

pub struct ValueGen<'a, 'b, 'c> {
    pub env: &'a Env<'a>,
    pub t: &'b mut Tape<'c>,
    /// Mutation site to sabotage: (site kind, index among the sites of that kind in generation
    /// order). Kinds: 0 = required field, 1 = typed position (wrong kind), 2 = enum without
    /// fallback, 3 = array length.
    pub target: Option<(usize, usize)>,
    pub sites: [usize; 4],
    pub applied: Option<Sabotage>,
    pub facts: Facts,
    budget: usize,
    depth: usize,
}

fn canon(raw: u64, n: u8) -> VarInt {
    VarInt::canonical(raw, n)
}

impl<'a, 'b, 'c> ValueGen<'a, 'b, 'c> {
    pub fn new(env: &'a Env<'a>, t: &'b mut Tape<'c>, target: Option<(usize, usize)>) -> Self {
        ValueGen { env, t, target, sites: [0; 4], applied: None, facts: Facts::default(), budget: 400, depth: 0 }
    }

    fn epoch(&mut self) -> Epoch {
        if self.t.bool() {
            self.facts.epoch2 = true;
            Epoch::V2
        } else {
            self.facts.epoch1 = true;
            Epoch::V1
        }
    }

    /// Recursive schema types (e.g. `option<box<Self>>`) must bottom out: past a depth or node
    /// budget only the smallest conforming forms are produced.
    fn minimal(&self) -> bool {
        self.depth > 10 || self.budget == 0
    }

    fn len(&mut self, max: usize) -> usize {
        if self.budget < 20 || self.minimal() {
            return 0;
        }
        let n = match self.t.below(8) {
            0 | 1 => 0,
            2 | 3 => 1,
            4 | 5 => 2,
            6 => 3,
            _ => max.min(3 + self.t.below(4)),
        };
        n.min(max)
    }

    fn varint(&mut self, raw: u64, n: u8) -> VarInt {
        if self.t.chance(30) {
            // a longer than necessary but valid form
            let forms = VarInt::forms_for(raw, n);
            VarInt { raw, form: forms[self.t.below(forms.len())] }
        } else {
            canon(raw, n)
        }
    }

    fn u64_value(&mut self, bits: u32) -> u64 {
        let max = if bits == 64 { u64::MAX } else { (1u64 << bits) - 1 };
        match self.t.below(8) {
            0 => 0,
            1 => 1,
            2 => max,
            3 => max - 1,
            4 => 250 & max,
            5 => 256 & max,
            6 => (self.t.u16() as u64) & max,
            _ => self.t.u64() & max,
        }
    }

    fn i64_value(&mut self, bits: u32) -> i64 {
        let min = if bits == 64 { i64::MIN } else { -(1i64 << (bits - 1)) };
        let max = if bits == 64 { i64::MAX } else { (1i64 << (bits - 1)) - 1 };
        match self.t.below(8) {
            0 => 0,
            1 => -1,
            2 => min,
            3 => max,
            4 => 1,
            5 => -128i64.max(min),
            _ => {
                let v = self.t.u64() as i64;
                if bits == 64 {
                    v
                } else {
                    (v % (1i64 << (bits - 1))).clamp(min, max)
                }
            }
        }
    }

    fn string(&mut self) -> Vec<u8> {
        let pool: &[&str] = &["", "a", "hello", "caf\u{e9}", "\u{1F600}", "with space", "0", "\u{0}", "line\nbreak"];
        let mut s = pool[self.t.below(pool.len())].to_string();
        if self.t.chance(40) {
            s.push_str(&format!("{}", self.t.u16()));
        }
        s.into_bytes()
    }

    fn arr<const N: usize>(&mut self) -> [u8; N] {
        let mut a = [0u8; N];
        let mode = self.t.below(3);
        for x in a.iter_mut() {
            *x = match mode {
                0 => 0,
                1 => 0xff,
                _ => self.t.u8(),
            };
        }
        a
    }

    fn prim(&mut self, k: &str) -> RTree {
        match k {
            "bool" => RTree::Bool(if self.t.chance(20) { 1 + self.t.below(255) as u8 } else { self.t.below(2) as u8 }),
            "u8" => RTree::U8(self.u64_value(8) as u8),
            "i8" => RTree::I8(self.i64_value(8) as i8),
            "u16" => {
                let v = self.u64_value(16);
                RTree::U16(self.varint(v, 2))
            }
            "i16" => {
                let v = self.i64_value(16);
                RTree::I16(self.varint(rc::zigzag_enc(v, 16), 2))
            }
            "u32" => {
                let v = self.u64_value(32);
                RTree::U32(self.varint(v, 4))
            }
            "i32" => {
                let v = self.i64_value(32);
                RTree::I32(self.varint(rc::zigzag_enc(v, 32), 4))
            }
            "u64" => {
                let v = self.u64_value(64);
                RTree::U64(self.varint(v, 8))
            }
            "i64" => {
                let v = self.i64_value(64);
                RTree::I64(self.varint(rc::zigzag_enc(v, 64), 8))
            }
            "f32" => RTree::F32(match self.t.below(6) {
                0 => 0,
                1 => 0x8000_0000,
                2 => 0x7fc0_0001,
                3 => 0x7f80_0000,
                4 => 1.5f32.to_bits(),
                _ => self.t.u32(),
            }),
            "f64" => RTree::F64(match self.t.below(6) {
                0 => 0,
                1 => 0x8000_0000_0000_0000,
                2 => 0x7ff8_0000_0000_0001,
                3 => 0xfff0_0000_0000_0000,
                4 => 2.25f64.to_bits(),
                _ => self.t.u64(),
            }),
            "string" => {
                let s = self.string();
                RTree::String(canon(s.len() as u64, 4), s)
            }
            "uuid" => RTree::Uuid(self.arr()),
            "object_id" | "lifetime" => RTree::ObjectId(self.arr()),
            "service_id" => RTree::ServiceId(self.arr()),
            "bytes" => self.bytes(),
            "unit" => RTree::None,
            "value" => self.any_value(2),
            _ => RTree::None,
        }
    }

    fn bytes(&mut self) -> RTree {
        self.facts.containers += 1;
        let n = self.len(40);
        let data: Vec<u8> = (0..n).map(|_| self.t.u8()).collect();
        match self.epoch() {
            Epoch::V1 => RTree::Bytes(Epoch::V1, vec![(canon(data.len() as u64, 4).form, data)], 0),
            Epoch::V2 => {
                let mut chunks = vec![];
                let mut rest = &data[..];
                while !rest.is_empty() {
                    let k = 1 + self.t.below(rest.len());
                    chunks.push((canon(k as u64, 4).form, rest[..k].to_vec()));
                    rest = &rest[k..];
                }
                RTree::Bytes(Epoch::V2, chunks, 0)
            }
        }
    }

    /// An arbitrary well-formed value (for `value` positions and unknown fields).
    pub fn any_value(&mut self, depth: u32) -> RTree {
        self.budget = self.budget.saturating_sub(1);
        let k = if depth == 0 || self.budget < 20 { self.t.below(6) } else { self.t.below(10) };
        match k {
            0 => RTree::None,
            1 => self.prim("u8"),
            2 => self.prim("string"),
            3 => self.prim("i32"),
            4 => self.prim("bool"),
            5 => self.prim("uuid"),
            6 => RTree::Some(Box::new(self.any_value(depth - 1))),
            7 => {
                let n = self.len(3);
                let e = self.epoch();
                let v: Vec<RTree> = (0..n).map(|_| self.any_value(depth - 1)).collect();
                RTree::Vec(e, canon(v.len() as u64, 4).form, v)
            }
            8 => {
                let n = self.len(3);
                let e = self.epoch();
                let v: Vec<(VarInt, RTree)> = (0..n).map(|i| (canon(i as u64 * 3, 4), self.any_value(depth - 1))).collect();
                RTree::Struct(e, canon(v.len() as u64, 4).form, v)
            }
            _ => RTree::Enum(canon(self.t.below(5) as u64, 4), Box::new(self.any_value(depth - 1))),
        }
    }

    fn key(&mut self, kk: KeyKind, i: usize) -> RKey {
        // distinct keys: the index is folded into the key
        match kk {
            KeyKind::U8 => RKey::U8((i as u8).wrapping_mul(37).wrapping_add(self.t.below(30) as u8)),
            KeyKind::I8 => RKey::I8((i as i8).wrapping_mul(29).wrapping_sub(60)),
            KeyKind::U16 => RKey::Int(canon(i as u64 * 300 + self.t.below(200) as u64, 2)),
            KeyKind::I16 => RKey::Int(canon(rc::zigzag_enc(i as i64 * 300 - 400, 16), 2)),
            KeyKind::U32 => RKey::Int(canon(i as u64 * 70_000 + self.t.below(250) as u64, 4)),
            KeyKind::I32 => RKey::Int(canon(rc::zigzag_enc(i as i64 * 70_000 - 100_000, 32), 4)),
            KeyKind::U64 => RKey::Int(canon((i as u64) << 33 | self.t.below(250) as u64, 8)),
            KeyKind::I64 => RKey::Int(canon(rc::zigzag_enc(((i as i64) << 33) - (1 << 34), 64), 8)),
            KeyKind::String => {
                let mut s = self.string();
                s.extend_from_slice(format!("#{i}").as_bytes());
                RKey::Str(canon(s.len() as u64, 4), s)
            }
            KeyKind::Uuid => {
                let mut a: [u8; 16] = self.arr();
                a[0] = i as u8;
                a[15] = i as u8 ^ 0x5a;
                RKey::Uuid(a)
            }
        }
    }

    /// A value of a kind that the effective type `t` cannot accept.
    fn wrong_kind(&mut self, t: &Ty) -> RTree {
        match t {
            Ty::Kw("bool") => RTree::String(canon(1, 4), b"x".to_vec()),
            Ty::Kw("string") => RTree::U8(7),
            _ => RTree::Bool(1),
        }
    }

    fn site(&mut self, kind: usize) -> bool {
        let hit = self.target == Some((kind, self.sites[kind])) && self.applied.is_none();
        self.sites[kind] += 1;
        hit
    }

    /// A conforming value of type `t` (appearing in schema `ctx`) - unless the sabotage target
    /// falls on one of its sites.
    pub fn value(&mut self, ctx: &str, t: &Ty) -> RTree {
        self.depth += 1;
        let v = self.value_inner(ctx, t);
        self.depth -= 1;
        v
    }

    fn value_inner(&mut self, ctx: &str, t: &Ty) -> RTree {
        self.budget = self.budget.saturating_sub(1);
        self.facts.nodes += 1;
        // wrong-kind site: every typed position except `value`
        // the effective type decides which replacement is certainly wrong
        let (eff, _) = self.env.effective(ctx, t);
        if !matches!(eff, Ty::Kw("value")) && self.site(1) {
            self.applied = Some(Sabotage::WrongKind);
            return self.wrong_kind(&eff);
        }
        match t {
            Ty::Kw(k) => self.prim(k),
            Ty::Gen1("option", a) => {
                if self.t.below(3) == 0 || self.minimal() {
                    RTree::None
                } else {
                    RTree::Some(Box::new(self.value(ctx, a)))
                }
            }
            Ty::Gen1("box", a) => self.value(ctx, a),
            Ty::Gen1("vec", a) => {
                if matches!(**a, Ty::Kw("u8")) {
                    return self.bytes();
                }
                self.facts.containers += 1;
                let n = self.len(5);
                let e = self.epoch();
                let v: Vec<RTree> = (0..n).map(|_| self.value(ctx, a)).collect();
                RTree::Vec(e, canon(v.len() as u64, 4).form, v)
            }
            Ty::Gen1("set", a) => {
                self.facts.containers += 1;
                let kk = self.env.key_kind(ctx, a).unwrap_or(KeyKind::U8);
                let n = self.len(4);
                let e = self.epoch();
                let v: Vec<RKey> = (0..n).map(|i| self.key(kk, i)).collect();
                RTree::Set(kk, e, canon(v.len() as u64, 4).form, v)
            }
            Ty::Gen1("sender", _) => RTree::Sender(self.arr()),
            Ty::Gen1("receiver", _) => RTree::Receiver(self.arr()),
            Ty::Gen1(_, a) => self.value(ctx, a),
            Ty::Map(k, v) => {
                self.facts.containers += 1;
                let kk = self.env.key_kind(ctx, k).unwrap_or(KeyKind::U8);
                let n = self.len(4);
                let e = self.epoch();
                let entries: Vec<(RKey, RTree)> = (0..n).map(|i| (self.key(kk, i), self.value(ctx, v))).collect();
                RTree::Map(kk, e, canon(entries.len() as u64, 4).form, entries)
            }
            Ty::Result(a, b) => {
                if self.t.bool() {
                    RTree::Enum(canon(0, 4), Box::new(self.value(ctx, a)))
                } else {
                    RTree::Enum(canon(1, 4), Box::new(self.value(ctx, b)))
                }
            }
            Ty::Array(elem, len) => {
                self.facts.containers += 1;
                let n = self.env.array_len(ctx, len).unwrap_or(1) as usize;
                let mut count = n;
                if self.site(3) {
                    if n > 0 && self.t.bool() {
                        count = n - 1;
                        self.applied = Some(Sabotage::ArrayTooShort);
                    } else {
                        count = n + 1;
                        self.applied = Some(Sabotage::ArrayTooLong);
                    }
                }
                let e = self.epoch();
                let v: Vec<RTree> = (0..count).map(|_| self.value(ctx, elem)).collect();
                RTree::Vec(e, canon(v.len() as u64, 4).form, v)
            }
            Ty::Ref(s, n) => match self.env.resolve(ctx, s, n) {
                Some(Resolved::Struct(b, c)) => self.struct_value(c, b),
                Some(Resolved::Enum(b, c)) => self.enum_value(c, b),
                Some(Resolved::Newtype(inner, c)) => self.value(c, inner),
                None => RTree::None,
            },
        }
    }

    pub fn struct_value(&mut self, ctx: &str, b: &StructBody) -> RTree {
        self.facts.containers += 1;
        let mut fields: Vec<(VarInt, RTree)> = vec![];
        for f in &b.fields {
            let id: u64 = f.id.parse().unwrap_or(0);
            if f.required {
                if self.site(0) {
                    self.applied = Some(Sabotage::DropRequiredField);
                    continue;
                }
                let v = self.value(ctx, &f.ty);
                fields.push((self.varint(id, 4), v));
            } else {
                match if self.minimal() { 0 } else { self.t.below(4) } {
                    0 => self.facts.optional_absent += 1,
                    1 => {
                        self.facts.optional_none += 1;
                        fields.push((self.varint(id, 4), RTree::None));
                    }
                    _ => {
                        self.facts.optional_some += 1;
                        let v = self.value(ctx, &f.ty);
                        fields.push((self.varint(id, 4), RTree::Some(Box::new(v))));
                    }
                }
            }
        }
        // field ids the schema does not know
        if self.t.chance(110) {
            let known: Vec<u64> = b.fields.iter().filter_map(|f| f.id.parse().ok()).collect();
            let n = 1 + self.t.below(2);
            for k in 0..n {
                let mut id = match self.t.below(3) {
                    0 => 0,
                    1 => 1000 + k as u64,
                    _ => known.iter().max().copied().unwrap_or(0) + 10 + k as u64,
                };
                while known.contains(&id) || fields.iter().any(|(i, _)| i.raw == id) {
                    id += 1;
                }
                let v = self.any_value(2);
                fields.push((self.varint(id, 4), v));
                self.facts.unknown_fields += 1;
                if b.fallback.is_some() {
                    self.facts.unknown_fields_kept += 1;
                }
            }
        }
        // any order
        if fields.len() >= 2 && self.t.bool() {
            for i in (1..fields.len()).rev() {
                let j = self.t.below(i + 1);
                fields.swap(i, j);
            }
        }
        let e = self.epoch();
        RTree::Struct(e, canon(fields.len() as u64, 4).form, fields)
    }

    pub fn enum_value(&mut self, ctx: &str, b: &EnumBody) -> RTree {
        if b.fallback.is_none() && self.site(2) {
            self.applied = Some(Sabotage::UnknownVariantNoFallback);
            let known: Vec<u64> = b.variants.iter().filter_map(|v| v.id.parse().ok()).collect();
            let mut id = known.iter().max().copied().unwrap_or(0) + 1 + self.t.below(5) as u64;
            while known.contains(&id) {
                id += 1;
            }
            let payload = self.any_value(1);
            return RTree::Enum(self.varint(id, 4), Box::new(payload));
        }
        if b.fallback.is_some() && (b.variants.is_empty() || self.t.chance(50)) {
            // a variant the schema does not know: kept by the fallback
            let known: Vec<u64> = b.variants.iter().filter_map(|v| v.id.parse().ok()).collect();
            let mut id = known.iter().max().copied().unwrap_or(0) + 2;
            while known.contains(&id) {
                id += 1;
            }
            self.facts.unknown_variants_kept += 1;
            let payload = self.any_value(2);
            return RTree::Enum(self.varint(id, 4), Box::new(payload));
        }
        if b.variants.is_empty() {
            return RTree::Enum(canon(0, 4), Box::new(RTree::None));
        }
        let mut v = &b.variants[self.t.below(b.variants.len())];
        if self.minimal() {
            if let Some(unit) = b.variants.iter().find(|v| v.ty.is_none()) {
                v = unit;
            }
        }
        let id: u64 = v.id.parse().unwrap_or(0);
        let payload = match &v.ty {
            Some(t) => self.value(ctx, t),
            None => RTree::None,
        };
        RTree::Enum(self.varint(id, 4), Box::new(payload))
    }

    pub fn node_value(&mut self, ctx: &str, n: &Node) -> RTree {
        // the whole value is a typed position too
        let top_is_value = match &n.body {
            NodeBody::Newtype(t) => matches!(self.env.effective(ctx, t).0, Ty::Kw("value")),
            _ => false,
        };
        if !top_is_value && !matches!(n.body, NodeBody::Newtype(_)) && self.site(1) {
            self.applied = Some(Sabotage::WrongKind);
            return RTree::Bool(1);
        }
        match &n.body {
            NodeBody::Struct(b) => self.struct_value(ctx, b),
            NodeBody::Enum(b) => self.enum_value(ctx, b),
            NodeBody::Newtype(t) => self.value(ctx, t),
            NodeBody::Service(_) => RTree::None,
        }
    }
}

// ---------------------------------------------------------------------------------------------
// expected meaning after decode -> encode

/// The meaning a conforming `v` of type `t` must have after passing through the generated type.
pub fn expect(env: &Env, ctx: &str, t: &Ty, v: &RTree) -> Sem {
    match (t, v) {
        (Ty::Kw("value"), _) => rc::sem(v),
        (Ty::Kw(_), _) => rc::sem(v),
        (Ty::Gen1("option", a), RTree::Some(x)) => Sem::Some(Box::new(expect(env, ctx, a, x))),
        (Ty::Gen1("option", _), _) => rc::sem(v),
        (Ty::Gen1("box", a), _) => expect(env, ctx, a, v),
        (Ty::Gen1("vec", a), RTree::Vec(_, _, elems)) => Sem::Vec(elems.iter().map(|e| expect(env, ctx, a, e)).collect()),
        (Ty::Array(a, _), RTree::Vec(_, _, elems)) => Sem::Vec(elems.iter().map(|e| expect(env, ctx, a, e)).collect()),
        (Ty::Map(_, val), RTree::Map(kk, _, _, entries)) => {
            let mut m = BTreeMap::new();
            for (k, e) in entries {
                // keys are plain: their meaning is the reference codec's
                if let Sem::Map(_, one) = rc::sem(&RTree::Map(*kk, Epoch::V2, 0, vec![(k.clone(), RTree::None)])) {
                    for (sk, _) in one {
                        m.insert(sk, expect(env, ctx, val, e));
                    }
                }
            }
            Sem::Map(*kk, m)
        }
        (Ty::Result(a, b), RTree::Enum(id, x)) => {
            let inner = if id.raw == 0 { expect(env, ctx, a, x) } else { expect(env, ctx, b, x) };
            Sem::Enum(id.raw as u32, Box::new(inner))
        }
        (Ty::Ref(s, n), _) => match env.resolve(ctx, s, n) {
            Some(Resolved::Struct(b, c)) => expect_struct(env, c, b, v),
            Some(Resolved::Enum(b, c)) => expect_enum(env, c, b, v),
            Some(Resolved::Newtype(inner, c)) => expect(env, c, inner, v),
            None => rc::sem(v),
        },
        _ => rc::sem(v),
    }
}

pub fn expect_struct(env: &Env, ctx: &str, b: &StructBody, v: &RTree) -> Sem {
    let RTree::Struct(_, _, fields) = v else {
        return rc::sem(v);
    };
    let mut m = BTreeMap::new();
    for (id, val) in fields {
        let id = id.raw as u32;
        match b.fields.iter().find(|f| f.id.parse::<u32>().ok() == Some(id)) {
            Some(f) if f.required => {
                m.insert(id, expect(env, ctx, &f.ty, val));
            }
            Some(f) => match val {
                RTree::Some(x) => {
                    m.insert(id, Sem::Some(Box::new(expect(env, ctx, &f.ty, x))));
                }
                // none: the field is unset and not written again
                _ => {}
            },
            None => {
                if b.fallback.is_some() {
                    m.insert(id, rc::sem(val));
                }
            }
        }
    }
    Sem::Struct(m)
}

pub fn expect_enum(env: &Env, ctx: &str, b: &EnumBody, v: &RTree) -> Sem {
    let RTree::Enum(id, payload) = v else {
        return rc::sem(v);
    };
    match b.variants.iter().find(|x| x.id.parse::<u64>().ok() == Some(id.raw)) {
        Some(var) => match &var.ty {
            Some(t) => Sem::Enum(id.raw as u32, Box::new(expect(env, ctx, t, payload))),
            None => Sem::Enum(id.raw as u32, Box::new(Sem::None)),
        },
        None => rc::sem(v),
    }
}

pub fn expect_node(env: &Env, ctx: &str, n: &Node, v: &RTree) -> Sem {
    match &n.body {
        NodeBody::Struct(b) => expect_struct(env, ctx, b, v),
        NodeBody::Enum(b) => expect_enum(env, ctx, b, v),
        NodeBody::Newtype(t) => expect(env, ctx, t, v),
        NodeBody::Service(_) => rc::sem(v),
    }
}

/// Shape facts of a node for the non-triviality rule: (has optional and required fields or >= 2
/// variants, has a container-typed member).
pub fn node_shape(env: &Env, ctx: &str, n: &Node) -> (bool, bool) {
    fn is_container(env: &Env, ctx: &str, t: &Ty) -> bool {
        let (e, _) = env.effective(ctx, t);
        matches!(e, Ty::Gen1("vec", _) | Ty::Gen1("set", _) | Ty::Map(..) | Ty::Array(..) | Ty::Kw("bytes") | Ty::Gen1("option", _) | Ty::Result(..))
            || matches!(e, Ty::Ref(..))
    }
    match &n.body {
        NodeBody::Struct(b) => (
            b.fields.iter().any(|f| f.required) && b.fields.iter().any(|f| !f.required),
            b.fields.iter().any(|f| is_container(env, ctx, &f.ty)),
        ),
        NodeBody::Enum(b) => (b.variants.len() >= 2, b.variants.iter().any(|v| v.ty.as_ref().map_or(false, |t| is_container(env, ctx, t)))),
        NodeBody::Newtype(t) => (false, is_container(env, ctx, t)),
        NodeBody::Service(_) => (false, false),
    }
}
