//! C17 Schema front end is total: parse, diagnose, format never panic; diagnostics are
//! repeatable; code generation is gated on the absence of errors and does not panic either.

use crate::c18;
use crate::front::{self, Input, Other};
use crate::model::{Cfg, DocMode, Exports, Gen};
use crate::print::{self, Style};
use crate::repo;
use crate::text;
use aldrin_codegen::{Generator, Options, RustOptions};
use aldrin_parser::{Diagnostic, Formatter, Parser, Renderer};
use vcommon::{catch, mix, CheckDef, ClassPlan, Outcome, PassInfo, Tape, Tier};

pub static DEF: CheckDef = CheckDef {
    id: "C17",
    level: "exploration",
    rule: "Inputs are schema sets (main source + what the resolver offers) decoded from a proptest-generated tape: (soup) token soups over the grammar's alphabet - every keyword and punctuation token of grammar.pest, integer/string/uuid literals, identifiers incl. non-ASCII, the three comment introducers with markdown-ish text, CR / LF / CR LF / tab separators, multi-byte, zero-width and NUL characters - as raw token sequences, shuffled statement phrases, statement soups (complete statements in or out of the grammar's order whose members are mostly but not always of the right kind, i.e. inputs on both sides of the grammar's boundary) and deeply nested generic/array types (<= 300 levels); (mutated) 1-4 token-, character-, line- and doc-line-level mutations (delete, duplicate, swap, replace, insert, truncate, splice with another file, LF -> CR LF / lone CR, swap / move / duplicate a line, markdown-adversarial fragment into a doc or comment line) of an .aldrin file of the repository picked by the tape, with a subset of its sibling schemas resolvable; (advdoc) grammar-directed valid schemas (the C18 generator and layout printer) whose doc comments come from a markdown-adversarial generator (inline/reference/footnote links, images, tables, task lists, unbalanced backticks and brackets, links spanning lines, CR / NUL / tab inside lines, multi-byte characters adjacent to link boundaries, doc-link-shaped paths that do and do not resolve); (multi) a generated main schema importing 1-4 further schemas (generated clean/noisy, soups, mutated repository files; mutual and self imports) of which the resolver offers a random subset, some as unreadable files; plus, enumerated in every run, every .aldrin file of the repository unmodified (repo-file) and under every mutation operator (mutated-enum). Non-trivial = the main schema gets past the grammar (no invalid-syntax error for it) or >= 1 broken-doc-link warning is reported; distinct = distinct (main source, offered schemas).",
    assumptions: &[
        "panics are observed with the harness profile (debug assertions and overflow checks on), in-process under catch_unwind",
        "repeatability is decided on the sorted multiset of renderings (all 8 renderer settings concatenated) of a second, independent Parser::parse of the same input",
        "\"code generation only reachable without errors\": with errors, Generator::new + Generator::rust must not produce output (the assertion in Generator::new is the gate); the aldrin-gen CLI gate is sampled only when a built binary exists (VERIF_ALDRIN_GEN or <repo>/target/debug/aldrin-gen), otherwise counted as cli-skipped",
        "inputs are bounded to a few KB (largest: an unmodified 17 KB repository file), so a hang cannot be mistaken for a violation; the runner's watchdog reports exit 2",
    ],
    plan,
    case,
    render,
    crashy: true,
    floors: &[
        ("past-grammar", 0.35),
        ("syntax-error", 0.15),
        ("doc-link-warning", 0.15),
        ("codegen-ran", 0.08),
        ("codegen-gated", 0.25),
        ("formatted", 0.35),
        ("has-cr", 0.10),
        ("has-multibyte", 0.15),
        ("multi:missing-import", 0.03),
        ("multi:io-error", 0.003),
        ("other-schema-warning", 0.01),
    ],
    extra: Some(extra),
    extra_coverage: Some(extra_coverage),
};

fn plan(t: Tier) -> Vec<ClassPlan> {
    let k = match t {
        Tier::Quick => 1,
        Tier::Thorough => 30,
    };
    vec![
        ClassPlan { class: "soup", cases: 12_000 * k, min_len: 0, max_len: 300 },
        ClassPlan { class: "mutated", cases: 12_000 * k, min_len: 2, max_len: 120 },
        ClassPlan { class: "advdoc", cases: 12_000 * k, min_len: 8, max_len: 900 },
        ClassPlan { class: "multi", cases: 6_000 * k, min_len: 8, max_len: 1200 },
    ]
}

/// Systematic part (worker 0): every repository file unmodified, and every file under every
/// mutation operator with a few pseudo-random operand choices, so that "mutations of every schema
/// file" does not depend on the tape picking each file.
fn extra(ctx: &mut vcommon::Ctx) {
    let n = repo::files().len();
    let reps = match ctx.tier {
        Tier::Quick => 2,
        Tier::Thorough => 12,
    };
    for i in 0..n {
        let idx = (i as u16).to_le_bytes();
        ctx.eval_case("repo-file", &idx);
        for op in 0..MUTATION_OPS {
            for rep in 0..reps {
                let mut rng = vcommon::SplitMix(mix(mix(ctx.seed, i as u64), (op * 64 + rep) as u64));
                let mut tape = vec![idx[0], idx[1], ((op * 256 + MUTATION_OPS - 1) / MUTATION_OPS) as u8];
                for _ in 0..24 {
                    tape.push(rng.next() as u8);
                }
                ctx.eval_case("mutated-enum", &tape);
            }
        }
    }
}

fn extra_coverage(_t: Tier) -> serde_json::Value {
    serde_json::json!({
        "repo_files": repo::files().len(),
        "repo_root": vcommon::repo_root().to_string_lossy(),
        "cli_binary": cli_binary().map(|p| p.to_string_lossy().to_string()),
    })
}

// ---------------------------------------------------------------------------------------------
// token soups

const KEYWORDS: &[&str] = &[
    "import", "struct", "enum", "service", "fn", "event", "const", "newtype", "u8", "i8", "u16", "i16", "u32", "i32", "u64", "i64",
    "string", "uuid", "object_id", "service_id", "bool", "f32", "f64", "value", "box", "vec", "bytes", "map", "set", "required",
    "option", "version", "args", "ok", "err", "sender", "receiver", "lifetime", "unit", "result", "fallback",
];
const PUNCT: &[&str] = &[";", "=", "(", ")", "<", ">", "->", "::", "#", "[", "]", ",", "{", "}", "@", "!", "#[", "#![", "-", ":", "/", "\"", "\\"];
const LITERALS: &[&str] = &[
    "0", "1", "-1", "007", "4294967295", "4294967296", "99999999999999999999", "\"\"", "\"abc\"", "\"a\\\\b\"", "\"a\\\"b\"",
    "\"\\n\"", "\"unterminated", "\"\u{e4}\\\u{e4}\"", "00000000-0000-0000-0000-000000000000",
    "ABCDEF01-2345-6789-abcd-ef0123456789", "0000000-0000-0000-0000-000000000000", "\"a\rb\"",
];
const IDENTS: &[&str] = &[
    "Foo", "Bar", "a", "b", "x1", "_", "_a", "foo_bar", "\u{e4}\u{f6}", "\u{4e2d}", "A", "N", "main", "self", "u8x", "requiredfoo",
    "structs", "e\u{301}", "a\u{200d}b",
];
const SEPS: &[&str] = &[" ", "", "\n", "\r\n", "\r", "\t", "  ", "\n\n", " ", " "];
const ODD_CHARS: &[&str] = &[
    "\u{e4}", "\u{1F600}", "\u{200b}", "\u{200d}", "\u{feff}", "\u{a0}", "\0", "\u{2028}", "\u{85}", "\x0b", "\x0c", "\u{202e}",
    "\u{fffd}", "\u{10ffff}", "\x7f", "\x1b[0m", "`", "$", "%", "^", "&", "*", "|", "~", "?", "'",
];
const PHRASES: &[&str] = &[
    "struct Foo {", "struct Bar {}", "enum E {", "enum Kind {}", "}", "a @ 1 = u8;", "required b @ 2 = string;", "c @ 3 = option<Foo>;",
    "d @ 3 = map<u8 -> vec<Bar>>;", "e @ 4 = [u8; N];", "f @ 5 = result<unit, a::Foo>;", "A @ 1;", "B @ 2 = Foo;", "B @ 2;",
    "unknown = fallback;", "import a;", "import b;", "import main;", "const N = u32(4);", "const S = string(\"x\");",
    "const U = uuid(00000000-0000-0000-0000-000000000001);", "newtype T = u8;", "newtype T = T;", "service Svc {",
    "uuid = 11111111-1111-4111-8111-111111111111;", "version = 1;", "fn f @ 1;", "fn g @ 2 = u8;", "fn h @ 3 {", "args = struct {",
    "ok = enum {", "err = Foo;", "args = u8;", "event e @ 1;", "event e2 @ 2 = struct {", "fn x = fallback;", "event y = fallback;",
    "#[rust(impl_copy)]", "#![rust(impl_eq,)]", "struct Foo { a @ 1 = Foo; }", "enum E { A @ 1 = E; }", "newtype A = box<A>;",
    "struct R { a @ 1 = option<R>; }", "a @ 4294967295 = u8;", "a @ 1 = u8;",
];

fn soup_comment(t: &mut Tape) -> String {
    let intro = text::ps(t, &["//", "///", "//!", "////", "//!!", "// ", "/// ", "//! "]);
    let body = match t.below(5) {
        0 => String::new(),
        1 => text::comment_line(t),
        2 => text::doc_line(t),
        _ => text::adversarial_block(t).join(" "),
    };
    let end = text::ps(t, &["\n", "\r\n", "\n", "\r", ""]);
    format!("{intro}{body}{end}")
}

fn soup_token(t: &mut Tape) -> String {
    match t.weighted(&[8, 8, 3, 4, 3, 2]) {
        0 => text::ps(t, KEYWORDS).to_string(),
        1 => text::ps(t, PUNCT).to_string(),
        2 => text::ps(t, LITERALS).to_string(),
        3 => text::ps(t, IDENTS).to_string(),
        4 => soup_comment(t),
        _ => text::ps(t, ODD_CHARS).to_string(),
    }
}

/// Deeply nested generic / array types (bounded: a few KB of source).
fn nested_type(t: &mut Tape) -> String {
    let k = t.below(300);
    let mut open = String::new();
    let mut close = String::new();
    for _ in 0..k {
        match t.below(8) {
            0 => {
                open.push_str("vec<");
                close.insert(0, '>');
            }
            1 => {
                open.push_str("box<");
                close.insert(0, '>');
            }
            2 => {
                open.push_str("map<u8 -> ");
                close.insert(0, '>');
            }
            3 => {
                open.push_str("result<u8, ");
                close.insert(0, '>');
            }
            4 => {
                open.push('[');
                close.insert_str(0, "; 2]");
            }
            5 => {
                open.push_str("set<");
                close.insert(0, '>');
            }
            _ => {
                open.push_str("option<");
                close.insert(0, '>');
            }
        }
    }
    let leaf = text::ps(t, &["u8", "T", "Foo", "a::Foo", "string", ""]);
    let cut = t.below(4) == 0;
    let mut s = format!("{}{}{}", open, leaf, close);
    if cut {
        let at = char_boundary_at(&s, t.below(s.len() + 1));
        s.truncate(at);
    }
    match t.below(3) {
        0 => format!("newtype T = {s};\n"),
        1 => format!("struct S {{ a @ 1 = {s}; }}\n"),
        _ => format!("service Svc {{ uuid = 11111111-1111-4111-8111-111111111111; version = 1; fn f @ 1 = {s}; }}\n"),
    }
}

const M_STRUCT: &[&str] = &[
    "a @ 1 = u8;", "required b @ 2 = string;", "c @ 3 = option<Foo>;", "d @ 4 = map<u8 -> vec<Bar>>;", "e @ 5 = [u8; N];",
    "f @ 6 = result<unit, a::Foo>;", "a @ 4294967295 = u8;", "a @ 1 = u8;", "g @ 7 = S;",
];
const M_ENUM: &[&str] = &["A @ 1;", "B @ 2 = Foo;", "B @ 2;", "C @ 3 = vec<E>;", "D @ 4 = E;"];
const M_SVC: &[&str] = &[
    "fn f @ 1;", "fn g @ 2 = u8;", "fn h @ 3 { args = u8; ok = Foo; err = enum { A @ 1; } }", "fn i @ 4 = struct { a @ 1 = u8; }",
    "event e @ 1;", "event e2 @ 2 = struct {}", "event e3 @ 3 = u8;", "fn h @ 3 {}", "fn j @ 5 { ok = u8; }",
    "fn k @ 6 { args = struct { //! [Foo]\n #![rust(impl_eq)] a @ 1 = u8; x = fallback; } }", "event e4 @ 4 = enum { A @ 1; B = fallback; }",
];
const M_FALLBACK: &[&str] = &["x = fallback;", "fn x = fallback;", "event y = fallback;"];
const M_OTHER: &[&str] = &[
    "uuid = 11111111-1111-4111-8111-111111111111;", "version = 1;", "import a;", "//! inner doc [Foo]\n", "/// doc [Bar]\n",
    "// comment\n", "#[rust(impl_copy)]", "#![rust(impl_eq,)]", "const N = u32(4);", "struct Foo {}", "args = u8;", "ok = u8;",
    "err = u8;", "required", ";", "}", "{", "enum E {}", "service S {}", "newtype T = u8;",
];

fn member(t: &mut Tape, right: &[&'static str]) -> &'static str {
    match t.weighted(&[40, 3, 2, 2, 2, 3]) {
        0 => text::ps(t, right),
        1 => text::ps(t, M_STRUCT),
        2 => text::ps(t, M_ENUM),
        3 => text::ps(t, M_SVC),
        4 => text::ps(t, M_FALLBACK),
        _ => text::ps(t, M_OTHER),
    }
}

/// A complete top-level statement whose members are mostly - not always - of the right kind
/// and in the right order. Returns (category, text): 0 = header doc, 1 = import, 2 = definition.
fn statement(t: &mut Tape) -> (u8, String) {
    let mut s = String::new();
    let kind = t.weighted(&[4, 4, 4, 2, 2, 3, 2]);
    if kind <= 4 && t.chance(60) {
        s.push_str(text::ps(t, &["/// doc [Foo]\n", "// comment\n", "#[rust(impl_copy)]\n", "//! inner\n", "#![x]\n"]));
    }
    let body = |t: &mut Tape, right: &[&'static str], fallbacks: &[&'static str]| {
        let n = t.below(5);
        let mut items: Vec<&'static str> = (0..n).map(|_| member(t, right)).collect();
        if t.chance(90) {
            // fallbacks belong at the end; one time in four they are put somewhere else
            let at = if t.below(4) == 0 { t.below(items.len() + 1) } else { items.len() };
            items.insert(at, member(t, fallbacks));
            if fallbacks.len() > 1 && t.chance(100) {
                items.insert(at + 1, member(t, fallbacks));
            }
        }
        let mut b = String::new();
        for i in items {
            b.push_str("    ");
            b.push_str(i);
            b.push('\n');
        }
        b
    };
    match kind {
        0 => {
            s.push_str(&format!("struct {} {{\n", text::ps(t, &["Foo", "Bar", "S"])));
            s.push_str(&body(t, M_STRUCT, &M_FALLBACK[..1]));
            s.push_str("}\n");
            (2, s)
        }
        1 => {
            s.push_str(&format!("enum {} {{\n", text::ps(t, &["E", "Kind", "Foo"])));
            s.push_str(&body(t, M_ENUM, &M_FALLBACK[..1]));
            s.push_str("}\n");
            (2, s)
        }
        2 => {
            s.push_str(&format!("service {} {{\n", text::ps(t, &["Svc", "Api"])));
            match t.below(8) {
                0 => s.push_str("    version = 1;\n    uuid = 11111111-1111-4111-8111-111111111111;\n"),
                1 => s.push_str("    uuid = 11111111-1111-4111-8111-111111111111;\n"),
                2 => s.push_str("    // c\n    uuid = 22222222-2222-4222-8222-222222222222;\n    /// d\n    version = 2;\n"),
                _ => s.push_str("    uuid = 11111111-1111-4111-8111-111111111111;\n    version = 1;\n"),
            }
            s.push_str(&body(t, M_SVC, &M_FALLBACK[1..]));
            s.push_str("}\n");
            (2, s)
        }
        3 => {
            s.push_str(text::ps(t, &["const N = u32(4);\n", "const S = string(\"x\");\n", "const U = uuid(00000000-0000-0000-0000-000000000001);\n", "const N = u8(256);\n"]));
            (2, s)
        }
        4 => {
            s.push_str(text::ps(t, &["newtype T = u8;\n", "newtype T = T;\n", "newtype A = box<A>;\n", "newtype K = map<K -> K>;\n"]));
            (2, s)
        }
        5 => (1, format!("{}import {};\n", text::ps(t, &["", "", "// c\n", "/// d\n"]), text::ps(t, &["a", "b", "main", "nope"]))),
        _ => (0, format!("{}//!{}\n", text::ps(t, &["", "", "// c\n"]), text::doc_line(t))),
    }
}

/// Sequences of complete statements: in the grammar's order (header docs, imports,
/// definitions) most of the time, otherwise in random order; members are sometimes of the
/// wrong kind. These inputs sit on both sides of the grammar's boundary.
fn statement_soup(t: &mut Tape) -> String {
    let n = t.below(8);
    let mut v: Vec<(u8, String)> = (0..n).map(|_| statement(t)).collect();
    if t.chance(150) {
        v.sort_by_key(|x| x.0);
    }
    v.into_iter().map(|x| x.1).collect()
}

fn soup(t: &mut Tape) -> String {
    let mode = t.below(4);
    if mode == 3 {
        return statement_soup(t);
    }
    if mode == 2 && t.chance(40) {
        return nested_type(t);
    }
    let n = t.below(70);
    let mut s = String::new();
    for _ in 0..n {
        let phrase = match mode {
            0 => true,
            1 => false,
            _ => t.chance(150),
        };
        if phrase {
            if t.chance(50) {
                s.push_str(&soup_comment(t));
            } else {
                s.push_str(text::ps(t, PHRASES));
            }
            s.push_str(text::ps(t, &["\n", "\n", " ", "\r\n", "", "\n    "]));
        } else {
            s.push_str(&soup_token(t));
            s.push_str(text::ps(t, SEPS));
        }
        if s.len() > 4000 {
            break;
        }
    }
    s
}

// ---------------------------------------------------------------------------------------------
// mutations of repository files

/// Rough lexer: words, line comments (incl. their line ending), white-space runs, single
/// punctuation characters.
fn lex(src: &str) -> Vec<&str> {
    let b = src.as_bytes();
    let mut out = vec![];
    let mut i = 0;
    while i < b.len() {
        let start = i;
        let c = src[i..].chars().next().unwrap();
        if src[i..].starts_with("//") {
            while i < b.len() && b[i] != b'\n' {
                i += 1;
            }
            if i < b.len() {
                i += 1;
            }
        } else if c.is_alphanumeric() || c == '_' {
            while i < b.len() {
                let c = src[i..].chars().next().unwrap();
                if c.is_alphanumeric() || c == '_' {
                    i += c.len_utf8();
                } else {
                    break;
                }
            }
        } else if c.is_whitespace() {
            while i < b.len() {
                let c = src[i..].chars().next().unwrap();
                if c.is_whitespace() {
                    i += c.len_utf8();
                } else {
                    break;
                }
            }
        } else {
            i += c.len_utf8();
        }
        out.push(&src[start..i]);
    }
    out
}

fn char_boundary_at(s: &str, mut i: usize) -> usize {
    i = i.min(s.len());
    while !s.is_char_boundary(i) {
        i -= 1;
    }
    i
}

/// For files above 6 KB three out of four cases work on a window of top-level chunks (<= 4 KB).
fn window(src: &str, t: &mut Tape) -> String {
    if src.len() <= 6000 || t.below(4) == 0 {
        return src.to_string();
    }
    // chunk boundaries: a blank line followed by a line starting at column 0
    let mut cuts = vec![0usize];
    let mut pos = 0;
    for l in src.split_inclusive('\n') {
        pos += l.len();
        if l.trim().is_empty() {
            if let Some(c) = src[pos..].chars().next() {
                if !c.is_whitespace() && c != '}' {
                    cuts.push(pos);
                }
            }
        }
    }
    cuts.push(src.len());
    let start = t.below(cuts.len() - 1);
    let mut end = start + 1;
    while end + 1 < cuts.len() && cuts[end + 1] - cuts[start] <= 4000 {
        end += 1;
    }
    src[cuts[start]..cuts[end]].to_string()
}

fn random_insert(t: &mut Tape) -> String {
    match t.below(6) {
        0 => text::ps(t, KEYWORDS).to_string(),
        1 => text::ps(t, PUNCT).to_string(),
        2 => text::ps(t, LITERALS).to_string(),
        3 => text::ps(t, IDENTS).to_string(),
        4 => text::ps(t, ODD_CHARS).to_string(),
        _ => text::ps(t, &["\r", "\n", "\r\n", "\t", " ", "//", "///", "//!", "/// [", "//! [Foo]\n"]).to_string(),
    }
}

const MUTATION_OPS: usize = 15;

fn mutate_once(src: &str, t: &mut Tape, all: &[repo::RepoFile]) -> String {
    let toks = lex(src);
    let join = |v: Vec<&str>| v.concat();
    match t.below(MUTATION_OPS) {
        // token level
        0 if !toks.is_empty() => {
            let i = t.below(toks.len());
            let mut v = toks.clone();
            v.remove(i);
            join(v)
        }
        1 if !toks.is_empty() => {
            let i = t.below(toks.len());
            let mut v = toks.clone();
            v.insert(i, toks[i]);
            join(v)
        }
        2 if toks.len() >= 2 => {
            let i = t.below(toks.len() - 1);
            let mut v = toks.clone();
            // swap with the next non-white-space token
            let mut j = i + 1;
            while j + 1 < v.len() && v[j].trim().is_empty() {
                j += 1;
            }
            v.swap(i, j);
            join(v)
        }
        3 if !toks.is_empty() => {
            let i = t.below(toks.len());
            let r = random_insert(t);
            let mut v: Vec<String> = toks.iter().map(|s| s.to_string()).collect();
            v[i] = r;
            v.concat()
        }
        4 => {
            let i = t.below(toks.len() + 1);
            let r = random_insert(t);
            let mut v: Vec<String> = toks.iter().map(|s| s.to_string()).collect();
            v.insert(i, r);
            v.concat()
        }
        // character level
        5 if !src.is_empty() => {
            let i = char_boundary_at(src, t.below(src.len()));
            let c = src[i..].chars().next().map_or(0, |c| c.len_utf8());
            format!("{}{}", &src[..i], &src[i + c..])
        }
        6 => {
            let i = char_boundary_at(src, t.below(src.len() + 1));
            format!("{}{}{}", &src[..i], text::ps(t, ODD_CHARS), &src[i..])
        }
        7 if !src.is_empty() => {
            // truncate
            let i = char_boundary_at(src, t.below(src.len()));
            src[..i].to_string()
        }
        8 => {
            // splice: prefix of this file + suffix of another
            let o = &all[t.below(all.len())].text;
            let i = char_boundary_at(src, t.below(src.len() + 1));
            let j = char_boundary_at(o, t.below(o.len() + 1));
            let tail = &o[j..];
            let tail = &tail[..char_boundary_at(tail, 3000)];
            format!("{}{}", &src[..i], tail)
        }
        9 => {
            // line endings: LF -> CR LF / lone CR on some lines
            let mut out = String::new();
            for l in src.split_inclusive('\n') {
                if l.ends_with('\n') && !l.ends_with("\r\n") && t.chance(80) {
                    out.push_str(&l[..l.len() - 1]);
                    out.push_str(text::ps(t, &["\r\n", "\r", "\r\r\n"]));
                } else {
                    out.push_str(l);
                }
            }
            out
        }
        // line level: statements change places (near the grammar's boundary)
        10 | 11 | 12 => {
            let mut lines: Vec<&str> = src.split_inclusive('\n').collect();
            if lines.len() < 2 {
                return format!("{src}\n{src}");
            }
            let i = t.below(lines.len());
            let j = t.below(lines.len());
            match t.below(3) {
                0 => lines.swap(i, j),
                1 => {
                    let l = lines.remove(i);
                    lines.insert(j.min(lines.len()), l);
                }
                _ => {
                    let l = lines[i];
                    lines.insert(j, l);
                }
            }
            lines.concat()
        }
        // doc-line level: keeps the syntax valid, attacks the markdown handling
        _ => {
            let lines: Vec<&str> = src.split_inclusive('\n').collect();
            let doc_lines: Vec<usize> = lines
                .iter()
                .enumerate()
                .filter(|(_, l)| l.trim_start().starts_with("///") || l.trim_start().starts_with("//!"))
                .map(|(i, _)| i)
                .collect();
            let block = text::adversarial_block(t);
            let mut out = String::new();
            if doc_lines.is_empty() || t.chance(60) {
                // new docs: a header block, or a doc block in front of a top-level definition
                let defs: Vec<usize> = lines
                    .iter()
                    .enumerate()
                    .filter(|(_, l)| {
                        ["struct ", "enum ", "service ", "const ", "newtype "].iter().any(|k| l.starts_with(k))
                    })
                    .map(|(i, _)| i)
                    .collect();
                if defs.is_empty() || t.chance(60) {
                    for b in &block {
                        out.push_str("//!");
                        out.push_str(b);
                        out.push('\n');
                    }
                    out.push_str(src);
                } else {
                    let at = defs[t.below(defs.len())];
                    for (i, l) in lines.iter().enumerate() {
                        if i == at {
                            for b in &block {
                                out.push_str("///");
                                out.push_str(b);
                                out.push('\n');
                            }
                        }
                        out.push_str(l);
                    }
                }
            } else {
                // splice a fragment into an existing doc line
                let at = doc_lines[t.below(doc_lines.len())];
                for (i, l) in lines.iter().enumerate() {
                    if i == at {
                        let body_end = l.trim_end_matches(['\n', '\r']).len();
                        let intro = l.find("//").unwrap_or(0) + 3;
                        let k = char_boundary_at(l, intro + t.below(body_end.saturating_sub(intro) + 1));
                        out.push_str(&l[..k]);
                        out.push_str(&block[0]);
                        out.push_str(&l[k..]);
                    } else {
                        out.push_str(l);
                    }
                }
            }
            out
        }
    }
}

/// Repository file by explicit index (tape: u16 index), unmodified (`mutate == false`) or under
/// exactly one mutation whose operator is selected by the third tape byte.
fn repo_case(tape: &[u8], mutate: bool) -> Input {
    let files = repo::files();
    let mut t = Tape::new(tape);
    let idx = (t.u16() as usize).min(files.len() - 1);
    let f = &files[idx];
    let source = if mutate {
        let mut op = t.clone();
        let _ = op.u8();
        let src = if f.text.len() > 6000 { window(&f.text, &mut op) } else { f.text.clone() };
        // `t` still points at the operator byte
        mutate_once(&src, &mut t, files)
    } else {
        f.text.clone()
    };
    let others = repo::siblings(idx).into_iter().map(|(name, s)| Other { name, source: Some(s) }).collect();
    Input { name: f.stem.clone(), source, others }
}

fn mutated(t: &mut Tape) -> (usize, Input) {
    let files = repo::files();
    let idx = t.below(files.len());
    let f = &files[idx];
    let mut src = window(&f.text, t);
    let n = 1 + t.below(4);
    for _ in 0..n {
        src = mutate_once(&src, t, files);
        if src.len() > 24_000 {
            src.truncate(char_boundary_at(&src, 24_000));
        }
    }
    let subset = t.u8();
    let others = repo::siblings(idx)
        .into_iter()
        .enumerate()
        .filter(|(i, _)| subset == 0 || (mix(subset as u64, *i as u64) & 3) != 0)
        .map(|(_, (name, s))| Other { name, source: Some(s) })
        .collect();
    (idx, Input { name: f.stem.clone(), source: src, others })
}

// ---------------------------------------------------------------------------------------------
// multi-schema sets

const MAIN_NAMES: &[&str] = &["main", "my_schema", "Main", "x1", "struct", "self", "m_\u{e4}", "1x", "a"];

fn multi(t: &mut Tape) -> Input {
    let n = 1 + t.below(4);
    let names = ["a", "b", "c", "other"];
    let mut importable: Vec<Exports> = vec![];
    let mut others: Vec<Other> = vec![];
    for (i, name) in names.iter().enumerate().take(n) {
        let avail = t.weighted(&[6, 3, 1]);
        let kind = t.weighted(&[4, 3, 1, 1]);
        let source = match kind {
            0 | 1 => {
                let cfg = Cfg {
                    noise: if kind == 0 { 0 } else { 1 + t.below(2) as u8 },
                    docs: match t.below(3) {
                        0 => DocMode::None,
                        1 => DocMode::Plain,
                        _ => DocMode::Adversarial,
                    },
                    comments: t.below(3) as u8,
                    max_defs: 4,
                    importable: importable.clone(),
                    schema_index: (i + 1) as u32,
                    rich: false,
                };
                let st = if t.bool() { Style::from_tape(t) } else { Style::plain() };
                let mut g = Gen::new(t, cfg);
                let m = g.schema(name);
                importable.push(g.exports.clone());
                print::print(&m, st)
            }
            2 => soup(t),
            _ => mutated(t).1.source,
        };
        match avail {
            0 => others.push(Other { name: name.to_string(), source: Some(source) }),
            1 => {}
            _ => others.push(Other { name: name.to_string(), source: None }),
        }
    }
    let cfg = Cfg {
        noise: t.weighted(&[4, 3, 2]) as u8,
        docs: if t.bool() { DocMode::Adversarial } else { DocMode::Plain },
        comments: t.below(3) as u8,
        max_defs: 5,
        importable,
        schema_index: 0,
        rich: false,
    };
    let st = Style::from_tape(t);
    let main_name = if t.chance(40) { text::ps(t, MAIN_NAMES) } else { "main" };
    let mut g = Gen::new(t, cfg);
    let m = g.schema(main_name);
    Input { name: main_name.to_string(), source: print::print(&m, st), others }
}

fn input_of(class: &str, tape: &[u8]) -> Input {
    let mut t = Tape::new(tape);
    match class {
        "soup" => Input::single("main", soup(&mut t)),
        "mutated" => mutated(&mut t).1,
        "advdoc" => {
            let clean = t.bool();
            c18::generate(&mut t, Some(DocMode::Adversarial), clean).input
        }
        "multi" => multi(&mut t),
        "repo-file" => repo_case(tape, false),
        "mutated-enum" => repo_case(tape, true),
        // raw source text (hand-written replays, corpus files): the tape is the main schema's
        // source; lines of the form `=== schema <name> ===` start a further resolvable schema
        _ => raw_input(&String::from_utf8_lossy(tape)),
    }
}

pub fn raw_input(text: &str) -> Input {
    let mut input = Input::single("main", String::new());
    let mut cur: Option<usize> = None;
    for l in text.split_inclusive('\n') {
        let t = l.trim_end();
        if let Some(name) = t.strip_prefix("=== schema ").and_then(|r| r.strip_suffix(" ===")) {
            input.others.push(Other { name: name.to_string(), source: Some(String::new()) });
            cur = Some(input.others.len() - 1);
            continue;
        }
        match cur {
            None => input.source.push_str(l),
            Some(i) => input.others[i].source.as_mut().unwrap().push_str(l),
        }
    }
    input
}

fn render(class: &str, tape: &[u8]) -> String {
    input_of(class, tape).render()
}

// ---------------------------------------------------------------------------------------------
// oracle

fn renderers() -> Vec<(&'static str, Renderer)> {
    let mut v = vec![];
    for (name, color, unicode, width) in [
        ("plain-ascii-100", false, false, 100usize),
        ("plain-ascii-20", false, false, 20),
        ("plain-unicode-100", false, true, 100),
        ("plain-unicode-20", false, true, 20),
        ("color-ascii-100", true, false, 100),
        ("color-ascii-20", true, false, 20),
        ("color-unicode-100", true, true, 100),
        ("color-unicode-20", true, true, 20),
    ] {
        v.push((name, Renderer::new(color, unicode, width)));
    }
    v
}

struct Run {
    parser: Parser,
    /// One entry per diagnostic: all renderings concatenated.
    rendered: Vec<String>,
    titles: Vec<String>,
}

fn run_front(input: &Input, pass: &str) -> Result<Run, Outcome> {
    let parser = match catch(|| front::parse(input)) {
        Ok(p) => p,
        Err(p) => {
            return Err(Outcome::fail(
                format!("panic:parse:{}", front::loc(&p)),
                format!("Parser::parse panicked ({pass} run): {}", p.0),
            ))
        }
    };
    let rs = renderers();
    let mut rendered = vec![];
    let mut titles = vec![];
    for d in front::diagnostics(&parser) {
        let mut all = format!("{} [{}]\n", front::kind_name(d.kind()), d.schema_name());
        for (i, (name, r)) in rs.iter().enumerate() {
            match catch(|| r.render(d, &parser)) {
                Ok(s) => {
                    if i == 0 {
                        titles.push(front::title_of(&s));
                    }
                    all.push_str(&s);
                    all.push('\n');
                }
                Err(p) => {
                    return Err(Outcome::fail(
                        format!("panic:render:{}", front::loc(&p)),
                        format!("Renderer::render ({name}) panicked ({pass} run): {}", p.0),
                    ))
                }
            }
        }
        rendered.push(all);
    }
    Ok(Run { parser, rendered, titles })
}

fn cli_binary() -> Option<std::path::PathBuf> {
    let p = match std::env::var_os("VERIF_ALDRIN_GEN") {
        Some(p) => std::path::PathBuf::from(p),
        None => vcommon::repo_root().join("target/debug/aldrin-gen"),
    };
    if p.is_file() {
        Some(p)
    } else {
        None
    }
}

/// Runs `aldrin-gen rust` on the case's files; Ok(true) = checked, Ok(false) = not applicable.
fn cli_gate(bin: &std::path::Path, input: &Input) -> Result<bool, Outcome> {
    let plain = |n: &str| !n.is_empty() && n.chars().all(|c| c.is_ascii_alphanumeric() || c == '_');
    if !plain(&input.name) || input.others.iter().any(|o| o.source.is_none() || !plain(&o.name)) {
        return Ok(false);
    }
    let dir = vcommon::verif_root().join("work").join("C17").join(format!("cli-{}", std::process::id()));
    let _ = std::fs::remove_dir_all(&dir);
    let inc = dir.join("inc");
    let out = dir.join("out");
    if std::fs::create_dir_all(&inc).is_err() || std::fs::create_dir_all(&out).is_err() {
        return Ok(false);
    }
    let main = dir.join(format!("{}.aldrin", input.name));
    if std::fs::write(&main, &input.source).is_err() {
        return Ok(false);
    }
    for o in &input.others {
        if o.name == input.name {
            continue;
        }
        let _ = std::fs::write(inc.join(format!("{}.aldrin", o.name)), o.source.as_ref().unwrap());
    }
    let child = std::process::Command::new(bin)
        .arg("rust")
        .arg("-I")
        .arg(&inc)
        .arg("--output")
        .arg(&out)
        .arg(&main)
        .current_dir(&dir)
        .stdin(std::process::Stdio::null())
        .stdout(std::process::Stdio::null())
        .stderr(std::process::Stdio::null())
        .spawn();
    let mut child = match child {
        Ok(c) => c,
        Err(_) => return Ok(false),
    };
    // a CLI run that does not finish is harness trouble for this sample, not a verdict
    let mut waited_ms = 0u64;
    let status = loop {
        match child.try_wait() {
            Ok(Some(s)) => break s,
            Ok(None) if waited_ms < 10_000 => {
                std::thread::sleep(std::time::Duration::from_millis(5));
                waited_ms += 5;
            }
            _ => {
                let _ = child.kill();
                let _ = child.wait();
                let _ = std::fs::remove_dir_all(&dir);
                return Ok(false);
            }
        }
    };
    let written: Vec<String> = std::fs::read_dir(&out)
        .map(|rd| rd.filter_map(|e| e.ok().map(|e| e.file_name().to_string_lossy().to_string())).collect())
        .unwrap_or_default();
    let _ = std::fs::remove_dir_all(&dir);
    if status.success() || !written.is_empty() {
        return Err(Outcome::fail(
            "codegen-gate:cli-generates-with-errors",
            format!("aldrin-gen rust on a schema with errors: exit status {:?}, files written {:?}", status.code(), written),
        ));
    }
    Ok(true)
}

fn case(class: &str, tape: &[u8], _strict: bool) -> Outcome {
    let input = input_of(class, tape);
    check(&input)
}

const STACK: usize = 8 << 20;

/// Runs `f` on a fresh 8 MiB thread with the process' randomness (hence every `HashMap`
/// iteration order inside the code under test) derived from `seed`, so that a case's outcome is a
/// pure function of its tape although the parser iterates over hash maps.
fn seeded<R: Send + 'static>(seed: u64, f: impl FnOnce() -> Result<R, Outcome> + Send + 'static) -> Result<R, Outcome> {
    match vcommon::with_det_seed(seed, STACK, f) {
        Ok(r) => r,
        Err(_) => {
            let p = vcommon::last_panic_any_thread();
            Err(Outcome::fail(format!("harness-or-sut-panic:{}", front::loc(&p)), format!("uncaught panic on the case thread: {}", p.0)))
        }
    }
}

struct First {
    rendered: Vec<String>,
    classes: Vec<&'static str>,
    nontrivial: bool,
}

/// Title with the quoted parts and digits removed: the *kind* of a diagnostic, for signatures.
fn title_kind(rendered: &str) -> String {
    let title = rendered.lines().nth(1).unwrap_or("");
    let mut out = String::new();
    let mut quoted = false;
    for c in title.chars() {
        if c == '`' {
            quoted = !quoted;
            continue;
        }
        if quoted || c.is_ascii_digit() {
            continue;
        }
        out.push(if c == ' ' { '-' } else { c });
    }
    while out.contains("--") {
        out = out.replace("--", "-");
    }
    out.trim_matches('-').chars().take(60).collect()
}

pub fn check(input: &Input) -> Outcome {
    let fp = input.fingerprint();
    let input = input.clone();
    match seeded(mix(fp, 0x17), move || check_seeded(&input, fp)) {
        Ok(o) => o,
        Err(o) => o,
    }
}

fn check_seeded(input: &Input, fp: u64) -> Result<Outcome, Outcome> {
    let first = first_run(input, fp)?;
    let mut a = first.rendered.clone();
    a.sort();
    // repeatability: two further independent runs. Every `HashMap` created on this thread draws
    // fresh hasher keys from the seeded stream, so each run sees different iteration orders.
    for pass in ["second", "third"] {
        let mut b = run_front(input, pass)?.rendered;
        b.sort();
        if a != b {
            let only_a: Vec<&String> = a.iter().filter(|x| !b.contains(x)).collect();
            let only_b: Vec<&String> = b.iter().filter(|x| !a.contains(x)).collect();
            let kind = only_a.first().or(only_b.first()).map(|s| title_kind(s)).unwrap_or_default();
            let show = |v: &Vec<&String>| v.iter().map(|s| s.lines().take(14).collect::<Vec<_>>().join("\n")).collect::<Vec<_>>().join("\n--\n");
            return Err(Outcome::fail(
                format!("repeat:diagnostics-differ:{}", kind),
                format!(
                    "the first and the {} run over the same input report different diagnostics ({} vs {})\nonly in the first run:\n{}\nonly in the {} run:\n{}",
                    pass,
                    a.len(),
                    b.len(),
                    show(&only_a),
                    pass,
                    show(&only_b),
                ),
            ));
        }
    }
    Ok(Outcome::Pass(PassInfo { nontrivial: first.nontrivial, fp, classes: first.classes }))
}

fn first_run(input: &Input, fp: u64) -> Result<First, Outcome> {
    let mut classes: Vec<&'static str> = vec![];
    let all_text = || std::iter::once(input.source.as_str()).chain(input.others.iter().filter_map(|o| o.source.as_deref()));
    if all_text().any(|s| s.contains('\r')) {
        classes.push("has-cr");
    }
    if all_text().any(|s| !s.is_ascii()) {
        classes.push("has-multibyte");
    }
    if all_text().any(|s| s.contains('\0')) {
        classes.push("has-nul");
    }
    if !input.others.is_empty() {
        classes.push("has-resolvable-schemas");
    }

    let run1 = run_front(input, "first")?;
    let p = &run1.parser;

    // formatting, when the API permits it
    let io_names: Vec<&str> = input.others.iter().filter(|o| o.source.is_none()).map(|o| o.name.as_str()).collect();
    let fmt = catch(|| match Formatter::new(p) {
        Ok(f) => Ok(f.to_string()),
        Err(errs) => Err(errs.iter().map(|e| e.schema_name().to_string()).collect::<Vec<_>>()),
    });
    let mut main_syntax_error = false;
    match fmt {
        Err(pn) => {
            return Err(Outcome::fail(format!("panic:format:{}", front::loc(&pn)), format!("Formatter panicked: {}", pn.0)));
        }
        Ok(Ok(_text)) => classes.push("formatted"),
        Ok(Err(names)) => {
            classes.push("format-refused");
            for n in &names {
                if io_names.contains(&n.as_str()) {
                    continue;
                }
                if *n == input.name {
                    main_syntax_error = true;
                } else {
                    classes.push("imported-syntax-error");
                }
            }
        }
    }
    if main_syntax_error {
        classes.push("syntax-error");
    } else {
        classes.push("past-grammar");
    }

    let doc_link_warnings = run1.titles.iter().filter(|t| t.starts_with("warning: broken doc link")).count();
    if doc_link_warnings > 0 {
        classes.push("doc-link-warning");
    }
    if !p.other_warnings().is_empty() {
        classes.push("other-schema-warning");
    }
    if run1.titles.iter().any(|t| t.starts_with("error: schema `") && t.ends_with("not found")) {
        classes.push("multi:missing-import");
    }
    if !io_names.is_empty() && p.errors().iter().any(|e| io_names.contains(&e.schema_name())) {
        classes.push("multi:io-error");
    }

    // code generation
    let has_errors = !p.errors().is_empty();
    if !has_errors {
        classes.push("no-errors");
        for bits in 0..32u32 {
            let mut o = Options::new();
            o.client = bits & 1 != 0;
            o.server = bits & 2 != 0;
            o.introspection = bits & 4 != 0;
            let mut ro = RustOptions::new();
            if bits & 8 != 0 {
                ro.introspection_if = Some("introspection");
            }
            if bits & 16 != 0 {
                ro.krate = Some("::my::aldrin_crate");
            }
            match catch(|| Generator::new(&o, p).rust(&ro).map(|out| out.module_content.len())) {
                Ok(_) => {}
                Err(pn) => {
                    return Err(Outcome::fail(
                        format!("panic:codegen:{}", front::loc(&pn)),
                        format!("Generator::rust panicked (client={} server={} introspection={} introspection_if={:?} krate={:?}): {}", o.client, o.server, o.introspection, ro.introspection_if, ro.krate, pn.0),
                    ));
                }
            }
        }
        classes.push("codegen-ran");
    } else {
        classes.push("has-errors");
        let o = Options::new();
        let ro = RustOptions::new();
        match catch(|| Generator::new(&o, p)) {
            Err(_) => classes.push("codegen-gated"),
            Ok(g) => match catch(|| g.rust(&ro).map(|out| out.module_content.len())) {
                Ok(Err(_)) => classes.push("codegen-gated"),
                Ok(Ok(n)) => {
                    return Err(Outcome::fail(
                        "codegen-gate:reachable-with-errors",
                        format!("Generator::new accepted a parser with {} error(s) and Generator::rust produced {} bytes", p.errors().len(), n),
                    ))
                }
                Err(pn) => {
                    return Err(Outcome::fail(
                        "codegen-gate:reachable-with-errors",
                        format!("Generator::new accepted a parser with {} error(s); Generator::rust then panicked: {}", p.errors().len(), pn.0),
                    ))
                }
            },
        }
        if fp % 200 == 0 {
            match cli_binary() {
                Some(bin) => match cli_gate(&bin, input) {
                    Ok(true) => classes.push("cli-checked"),
                    Ok(false) => classes.push("cli-not-applicable"),
                    Err(o) => return Err(o),
                },
                None => classes.push("cli-skipped"),
            }
        }
    }

    let nontrivial = !main_syntax_error || doc_link_warnings > 0;
    Ok(First { rendered: run1.rendered, classes, nontrivial })
}
