pub use crate::c18::DEF;
