//! The repository's own code generator test schemas (`codegen/test/*.aldrin`, the ones
//! `codegen/src/rust/test.rs` compiles and round-trips hand-picked values through) as an extra
//! schema group of every batch: they are translated from the parser's AST into the harness'
//! schema model, so the restated wire contract is exercised - and thereby cross-checked - on the
//! types upstream's tests pin, not only on generated schemas.

use crate::batch::Unit;
use crate::front::{self, Input, Other};
use crate::model::*;
use aldrin_parser::ast::{
    ArrayLenValue, ConstValue, Definition, EnumFallback, EnumVariant, NamedRef, NamedRefKind, ServiceItem, StructFallback, StructField,
    TypeName, TypeNameKind, TypeNameOrInline,
};
use aldrin_parser::Schema;

fn named(r: &NamedRef) -> (Option<String>, String) {
    match r.kind() {
        NamedRefKind::Intern(i) => (None, i.value().to_string()),
        NamedRefKind::Extern(s, i) => (Some(s.value().to_string()), i.value().to_string()),
    }
}

fn ty(t: &TypeName) -> Ty {
    let g1 = |k: &'static str, a: &TypeName| Ty::Gen1(k, Box::new(ty(a)));
    match t.kind() {
        TypeNameKind::Bool => Ty::Kw("bool"),
        TypeNameKind::U8 => Ty::Kw("u8"),
        TypeNameKind::I8 => Ty::Kw("i8"),
        TypeNameKind::U16 => Ty::Kw("u16"),
        TypeNameKind::I16 => Ty::Kw("i16"),
        TypeNameKind::U32 => Ty::Kw("u32"),
        TypeNameKind::I32 => Ty::Kw("i32"),
        TypeNameKind::U64 => Ty::Kw("u64"),
        TypeNameKind::I64 => Ty::Kw("i64"),
        TypeNameKind::F32 => Ty::Kw("f32"),
        TypeNameKind::F64 => Ty::Kw("f64"),
        TypeNameKind::String => Ty::Kw("string"),
        TypeNameKind::Uuid => Ty::Kw("uuid"),
        TypeNameKind::ObjectId => Ty::Kw("object_id"),
        TypeNameKind::ServiceId => Ty::Kw("service_id"),
        TypeNameKind::Value => Ty::Kw("value"),
        TypeNameKind::Bytes => Ty::Kw("bytes"),
        TypeNameKind::Lifetime => Ty::Kw("lifetime"),
        TypeNameKind::Unit => Ty::Kw("unit"),
        TypeNameKind::Option(a) => g1("option", a),
        TypeNameKind::Box(a) => g1("box", a),
        TypeNameKind::Vec(a) => g1("vec", a),
        TypeNameKind::Set(a) => g1("set", a),
        TypeNameKind::Sender(a) => g1("sender", a),
        TypeNameKind::Receiver(a) => g1("receiver", a),
        TypeNameKind::Map(k, v) => Ty::Map(Box::new(ty(k)), Box::new(ty(v))),
        TypeNameKind::Result(a, b) => Ty::Result(Box::new(ty(a)), Box::new(ty(b))),
        TypeNameKind::Array(a, len) => Ty::Array(
            Box::new(ty(a)),
            match len.value() {
                ArrayLenValue::Literal(l) => ArrLen::Lit(l.value().to_string()),
                ArrayLenValue::Ref(r) => {
                    let (s, n) = named(r);
                    ArrLen::Ref(s, n)
                }
            },
        ),
        TypeNameKind::Ref(r) => {
            let (s, n) = named(r);
            Ty::Ref(s, n)
        }
    }
}

fn struct_body(fields: &[StructField], fb: Option<&StructFallback>) -> StructBody {
    StructBody {
        inner: vec![],
        fields: fields
            .iter()
            .map(|f| Field { pre: vec![], required: f.required(), name: f.name().value().to_string(), id: f.id().value().to_string(), ty: ty(f.field_type()) })
            .collect(),
        fallback: fb.map(|f| Fallback { pre: vec![], name: f.name().value().to_string() }),
    }
}

fn enum_body(vars: &[EnumVariant], fb: Option<&EnumFallback>) -> EnumBody {
    EnumBody {
        inner: vec![],
        variants: vars
            .iter()
            .map(|v| Variant { pre: vec![], name: v.name().value().to_string(), id: v.id().value().to_string(), ty: v.variant_type().map(ty) })
            .collect(),
        fallback: fb.map(|f| Fallback { pre: vec![], name: f.name().value().to_string() }),
    }
}

fn ty_or_inline(t: &TypeNameOrInline) -> TyOrInline {
    match t {
        TypeNameOrInline::TypeName(t) => TyOrInline::Ty(ty(t)),
        TypeNameOrInline::Struct(s) => TyOrInline::Struct(struct_body(s.fields(), s.fallback())),
        TypeNameOrInline::Enum(e) => TyOrInline::Enum(enum_body(e.variants(), e.fallback())),
    }
}

/// Translates a parsed schema into the harness' model (docs, comments and attributes dropped:
/// they are not wire-relevant).
pub fn model_of(schema: &Schema) -> Model {
    let mut m = Model::default();
    for i in schema.imports() {
        m.imports.push(Import { pre: vec![], name: i.schema_name().value().to_string() });
    }
    for d in schema.definitions() {
        match d {
            Definition::Struct(s) => {
                // attributes are kept: upstream's schemas request derives their fields support
                let pre = s
                    .attributes()
                    .iter()
                    .map(|a| Pre::Attr(Attr { name: a.name().value().to_string(), opts: a.options().iter().map(|o| o.value().to_string()).collect(), trailing_comma: false }))
                    .collect();
                m.defs.push(Def::Struct { pre, name: s.name().value().to_string(), body: struct_body(s.fields(), s.fallback()) })
            }
            Definition::Enum(e) => {
                let pre = e
                    .attributes()
                    .iter()
                    .map(|a| Pre::Attr(Attr { name: a.name().value().to_string(), opts: a.options().iter().map(|o| o.value().to_string()).collect(), trailing_comma: false }))
                    .collect();
                m.defs.push(Def::Enum { pre, name: e.name().value().to_string(), body: enum_body(e.variants(), e.fallback()) })
            }
            Definition::Newtype(n) => {
                let pre = n
                    .attributes()
                    .iter()
                    .map(|a| Pre::Attr(Attr { name: a.name().value().to_string(), opts: a.options().iter().map(|o| o.value().to_string()).collect(), trailing_comma: false }))
                    .collect();
                m.defs.push(Def::Newtype { pre, name: n.name().value().to_string(), ty: ty(n.target_type()) })
            }
            Definition::Const(c) => {
                let val = match c.value() {
                    ConstValue::U8(v) => ConstVal::Int("u8", v.value().to_string()),
                    ConstValue::I8(v) => ConstVal::Int("i8", v.value().to_string()),
                    ConstValue::U16(v) => ConstVal::Int("u16", v.value().to_string()),
                    ConstValue::I16(v) => ConstVal::Int("i16", v.value().to_string()),
                    ConstValue::U32(v) => ConstVal::Int("u32", v.value().to_string()),
                    ConstValue::I32(v) => ConstVal::Int("i32", v.value().to_string()),
                    ConstValue::U64(v) => ConstVal::Int("u64", v.value().to_string()),
                    ConstValue::I64(v) => ConstVal::Int("i64", v.value().to_string()),
                    ConstValue::String(v) => ConstVal::Str(v.value().to_string()),
                    ConstValue::Uuid(v) => ConstVal::Uuid(v.value().to_string()),
                };
                m.defs.push(Def::Const { pre: vec![], name: c.name().value().to_string(), val });
            }
            Definition::Service(s) => {
                let mut items = vec![];
                for item in s.items() {
                    match item {
                        ServiceItem::Function(f) => {
                            let part = |p: Option<&aldrin_parser::ast::FunctionPart>| p.map(|p| FnPart { pre: vec![], ty: ty_or_inline(p.part_type()) });
                            let body = match (f.args(), f.ok(), f.err()) {
                                (None, None, None) => FnBody::Term,
                                (a, o, e) => FnBody::Full { args: part(a), ok: part(o), err: part(e) },
                            };
                            items.push(Item::Fn(FnDef { pre: vec![], name: f.name().value().to_string(), id: f.id().value().to_string(), body }));
                        }
                        ServiceItem::Event(e) => items.push(Item::Ev(EvDef {
                            pre: vec![],
                            name: e.name().value().to_string(),
                            id: e.id().value().to_string(),
                            ty: e.event_type().map(ty_or_inline),
                        })),
                    }
                }
                let mut fallbacks = vec![];
                if let Some(f) = s.function_fallback() {
                    fallbacks.push((true, Fallback { pre: vec![], name: f.name().value().to_string() }));
                }
                if let Some(f) = s.event_fallback() {
                    fallbacks.push((false, Fallback { pre: vec![], name: f.name().value().to_string() }));
                }
                m.defs.push(Def::Service(Service {
                    pre: vec![],
                    name: s.name().value().to_string(),
                    uuid_pre: vec![],
                    uuid: s.uuid().value().to_string(),
                    ver_pre: vec![],
                    ver: s.version().value().to_string(),
                    items,
                    fallbacks,
                }));
            }
        }
    }
    m
}

/// The schemas of `<repo>/codegen/test` that parse without errors, as model units.
pub fn units() -> Vec<Unit> {
    let dir = vcommon::repo_root().join("codegen").join("test");
    let Ok(rd) = std::fs::read_dir(&dir) else {
        return vec![];
    };
    let mut files: Vec<(String, String)> = rd
        .filter_map(|e| e.ok())
        .filter_map(|e| {
            let p = e.path();
            let name = p.file_name()?.to_str()?.to_string();
            let stem = name.strip_suffix(".aldrin")?.to_string();
            let text = std::fs::read_to_string(&p).ok()?;
            Some((stem, text))
        })
        .collect();
    files.sort();
    let mut out = vec![];
    for (stem, text) in &files {
        let input = Input {
            name: stem.clone(),
            source: text.clone(),
            others: files.iter().filter(|(s, _)| s != stem).map(|(s, t)| Other { name: s.clone(), source: Some(t.clone()) }).collect(),
        };
        let Ok(parser) = vcommon::catch(|| front::parse(&input)) else {
            continue;
        };
        if !parser.errors().is_empty() {
            continue;
        }
        out.push(Unit { name: stem.clone(), model: model_of(parser.main_schema()) });
    }
    out
}
