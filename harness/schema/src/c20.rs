//! C20 Type ids are structural: equal iff the wire-relevant layout is equal.
//!
//! One check definition with two halves: class `graph` (in-process, crate `intro`: random layout
//! graphs behind const-generic slots) and the `gencrate` classes that share C16's batch of
//! generated schemas compiled with `introspection = true`: ids reported by the generated code
//! (derive macro for types, `service!` for services) are compared with ids computed in the harness
//! from a hand-built IR (`irslots.rs`), between each schema and its permuted / re-documented
//! variants, and across single semantic edits.

use crate::batch::{self, NodeKind, Unit};
use crate::c16::{self, Runtime};
use crate::gencrate::{self, Reply};
use crate::irslots::Ir;
use aldrin_core::introspection::Introspection;
use aldrin_core::{SerializedValue, TypeId};
use std::collections::{BTreeMap, BTreeSet};
use vcommon::{fingerprint, CheckDef, ClassPlan, Ctx, Outcome, PassInfo, Tier};

pub static DEF: CheckDef = CheckDef {
    id: "C20",
    level: "exploration",
    rule: "Two halves. (graph, in-process) random layout graphs (2-10 nodes: structs, enums, newtypes, services; references to other nodes plain or wrapped in Option/Vec/Box/Map, recursion and mutual recursion) built with the public IR builders behind const-generic Introspectable slots; ids computed for the graph, for neutral edits (docs, declaration order, reference visiting order, different HashMap seeds: must be identical) and for single semantic edits (the edited type and exactly the types that reference it, transitively, must change); every Introspection record round-trips and its references are exactly the types its layout names. (typeid, compiled) the batch of generated schema groups shared with C16 (all built-in types, nested generics, arrays, newtypes, inline types, imports, raw identifiers), generated with introspection and compiled: per group, (base) the id of every type and service reported by the generated code (derive macro / service! macro) equals the id computed in the harness from an IR hand-built from the schema model, and its Introspection record deserializes, round-trips and references exactly the types the schema names; (perm, doc) the variant with permuted declaration order of definitions/fields/variants/functions/fallbacks and the variant with edited docs and comments (and a different layout) give identical ids for every type and service; (edit:*) one variant per semantic edit class - schema/type/field/variant/function/event renamed, member id changed, required toggled, referenced type changed, fallback added/removed, service uuid/version changed, members added - changes the id of the edited types and of every type that references them (transitively) and of no other type. Non-trivial: graph with a cycle or a >= 2-hop chain; compiled group whose main schema has a >= 2-hop reference chain.",
    assumptions: &[
        "the IR builders are the statement of the wire-relevant description; the hand-built IR maps vec<u8> to the byte-string layout like the Rust generator does",
        "ids of compiled code are obtained from the oracle server built by gencrate (TypeId::compute on the generated type / service type)",
        "semantic edits that rename a function or event are applied to items without inline types (inline type names derive from the item name)",
    ],
    plan,
    case,
    render,
    crashy: false,
    floors: &[
        ("graph:cycle", 0.15),
        ("graph:chain>=2", 0.25),
        ("edit:referenced-type", 0.04),
        ("neutral:docs", 0.15),
        ("typeid:base-ok", 0.0003),
        ("typeid:perm-ok", 0.0003),
        ("typeid:doc-ok", 0.0003),
        ("typeid:edit-ok", 0.001),
    ],
    extra: Some(extra),
    extra_coverage: Some(extra_coverage),
};

fn plan(t: Tier) -> Vec<ClassPlan> {
    (intro::DEF_INPROCESS.plan)(t)
}

fn extra(ctx: &mut Ctx) {
    for b in c16::batches(ctx.tier) {
        let class = c16::leak(format!("typeid@{}", b.key()));
        let cases: Vec<(usize, usize)> = c16::with_runtime(b, |rt| {
            let mut v = vec![];
            for g in &rt.batch.groups {
                for k in 0..=g.variants.len() {
                    v.push((g.index, k));
                }
            }
            v
        });
        for (g, k) in cases {
            ctx.eval_case(class, &[g as u8, k as u8]);
        }
    }
}

fn extra_coverage(t: Tier) -> serde_json::Value {
    let mut out = vec![];
    for b in c16::batches(t) {
        out.push(c16::with_runtime(b, |rt| {
            let mut edits: BTreeMap<&'static str, usize> = BTreeMap::new();
            for g in &rt.batch.groups {
                for v in &g.variants {
                    *edits.entry(v.label).or_insert(0) += 1;
                }
            }
            serde_json::json!({
                "batch": rt.batch.id.key(),
                "groups": rt.batch.groups.len(),
                "variants_by_kind": edits,
                "modules_failed_to_compile": rt.report.failed_modules.keys().cloned().collect::<Vec<_>>(),
                "build_seconds": rt.report.seconds,
            })
        }));
    }
    serde_json::json!({ "compiled_batches": out })
}

fn render(class: &str, tape: &[u8]) -> String {
    if class == "graph" {
        return intro::render(class, tape);
    }
    let Some((_, id)) = c16::split_class(class) else {
        return format!("unknown class {class}");
    };
    let (g, k) = (tape.first().copied().unwrap_or(0) as usize, tape.get(1).copied().unwrap_or(0) as usize);
    c16::with_runtime(id, |rt| {
        let Some(group) = rt.batch.groups.get(g) else {
            return "no such group".to_string();
        };
        let mut s = format!("batch {} group {} (crate {})\n", id.key(), g, rt.crate_dir);
        s.push_str(&format!("base schema `{}`:\n{}", group.main.name, crate::front::escaped_lines(&batch::source_of(&group.main, crate::print::Style::plain()))));
        if k >= 1 {
            if let Some(v) = group.variants.get(k - 1) {
                s.push_str(&format!("variant {} ({}) schema `{}`:\n{}", v.tag, v.label, v.main.name, crate::front::escaped_lines(&batch::source_of(&v.main, crate::print::Style::plain()))));
            }
        }
        s
    })
}

fn case(class: &str, tape: &[u8], strict: bool) -> Outcome {
    if class == "graph" {
        return intro::case(class, tape, strict);
    }
    let Some((kind, id)) = c16::split_class(class) else {
        return Outcome::fail("harness:bad-class", format!("class {class} does not name a batch"));
    };
    if kind != "typeid" {
        return Outcome::fail("harness:bad-class", format!("unknown class kind {kind}"));
    }
    let (g, k) = (tape.first().copied().unwrap_or(0) as usize, tape.get(1).copied().unwrap_or(0) as usize);
    c16::with_runtime(id, |rt| typeid_case(rt, g, k))
}

fn server_id(rt: &mut Runtime, key: &str) -> Result<TypeId, Outcome> {
    match rt.request(|s| s.type_id(key)) {
        Reply::Ok(b) if b.len() == 16 => Ok(TypeId(uuid::Uuid::from_slice(&b).unwrap())),
        Reply::Ok(b) => Err(Outcome::fail("oracle-server:bad-type-id", format!("{key}: {}", vcommon::hex(&b)))),
        Reply::Panic(m) => Err(Outcome::fail("generated-code-panic:type-id", format!("{key}: {m}"))),
        Reply::Err(m) => Err(Outcome::fail("oracle-server:error", format!("{key}: {m}"))),
        Reply::NoType => Err(Outcome::fail("harness:registry-miss", key.to_string())),
        Reply::Dead(m) => Err(Outcome::fail("oracle-server-died", format!("{key}: {m}"))),
    }
}

fn sv_from_bytes(b: &[u8]) -> Option<SerializedValue> {
    if b.is_empty() {
        return None;
    }
    Some(codec::glue::sv_from_bytes(b))
}

fn has_two_hop_chain(u: &Unit) -> bool {
    batch::nodes(&u.model).iter().any(|n| batch::max_distance_to(&u.model, &n.name) >= 2)
}

fn typeid_case(rt: &mut Runtime, gi: usize, k: usize) -> Outcome {
    let Some(group) = rt.batch.groups.get(gi).cloned() else {
        return Outcome::fail("harness:bad-index", "no such group");
    };
    let main = group.main.name.clone();
    let fp = fingerprint(format!("{}:{}:{}", rt.batch.id.key(), gi, k).as_bytes());
    let Some(base_m) = rt.find_module(gi, "base", &main) else {
        return Outcome::Pass(PassInfo { nontrivial: false, fp, classes: vec!["typeid:group-unavailable(no-module)"] });
    };
    if !rt.module_usable(&rt.prep.modules[base_m].clone()) {
        return Outcome::Pass(PassInfo { nontrivial: false, fp, classes: vec!["typeid:group-unavailable(module-did-not-compile)"] });
    }
    let nontrivial = has_two_hop_chain(&group.main);
    let base_units: Vec<Unit> = group.deps.iter().cloned().chain(std::iter::once(group.main.clone())).collect();
    let base_ir = Ir::build(&base_units.iter().collect::<Vec<_>>());

    if k == 0 {
        // generated code vs hand-built IR, and the introspection records
        let mut classes = vec!["typeid:base-ok"];
        if base_ir.overflow {
            return Outcome::Pass(PassInfo { nontrivial: false, fp, classes: vec!["typeid:ir-too-large(skipped)"] });
        }
        for u in &base_units {
            if rt.find_module(gi, "base", &u.name).is_none() {
                continue;
            }
            for n in batch::nodes(&u.model) {
                let key = gencrate::type_key(gi, "base", &u.name, &n.name);
                let sid = match server_id(rt, &key) {
                    Ok(i) => i,
                    Err(o) => return o,
                };
                let hid = base_ir.type_id(&u.name, &n.name).unwrap();
                let kind = match n.kind {
                    NodeKind::Service => "service",
                    NodeKind::Struct => "struct",
                    NodeKind::Enum => "enum",
                    NodeKind::Newtype => "newtype",
                };
                if sid != hid {
                    return Outcome::fail(
                        format!("typeid:generated-vs-hand-built-ir:{kind}"),
                        format!("{key}: the generated code reports {:?}, the IR built from the schema gives {:?}", sid, hid),
                    );
                }
                // introspection record
                let rec_bytes = match rt.request(|s| s.introspection(&key)) {
                    Reply::Ok(b) => b,
                    Reply::Panic(m) => return Outcome::fail("generated-code-panic:introspection", format!("{key}: {m}")),
                    other => return Outcome::fail("oracle-server:error", format!("{key}: {:?}", other)),
                };
                let Some(sv) = sv_from_bytes(&rec_bytes) else {
                    return Outcome::fail("introspection:malformed", format!("{key}: {}", vcommon::hex(&rec_bytes)));
                };
                let rec: Introspection = match sv.deserialize() {
                    Ok(r) => r,
                    Err(e) => return Outcome::fail("introspection:deserialize-failed", format!("{key}: {:?}", e)),
                };
                if rec.type_id() != sid {
                    return Outcome::fail("introspection:type-id-differs", format!("{key}: record carries {:?}, TypeId::compute gives {:?}", rec.type_id(), sid));
                }
                match SerializedValue::serialize(&rec).map(|s| s.deserialize::<Introspection>()) {
                    Ok(Ok(back)) => {
                        if back != rec {
                            return Outcome::fail("introspection:roundtrip-differs", format!("{key}:\n{:?}\n{:?}", rec, back));
                        }
                    }
                    other => return Outcome::fail("introspection:roundtrip-failed", format!("{key}: {:?}", other.map(|r| r.map(|_| ())))),
                }
                let want: BTreeSet<TypeId> = base_ir.direct_reference_ids(&u.name, &n.name).unwrap().into_iter().collect();
                let got: BTreeSet<TypeId> = rec.references().iter().copied().collect();
                if got != want {
                    return Outcome::fail(
                        format!("introspection:references-differ:{kind}"),
                        format!("{key}: the record references {:?}, the schema names {:?}", got, want),
                    );
                }
                classes.push(match n.kind {
                    NodeKind::Service => "typeid:service-checked",
                    _ => "typeid:type-checked",
                });
            }
        }
        classes.sort();
        classes.dedup();
        if group.excluded_idents > 0 {
            classes.push("typeid:group-had-excluded-raw-identifiers");
        }
        return Outcome::Pass(PassInfo { nontrivial, fp, classes });
    }

    let Some(variant) = group.variants.get(k - 1).cloned() else {
        return Outcome::fail("harness:bad-index", "no such variant");
    };
    let Some(var_m) = rt.find_module(gi, &variant.tag, &variant.main.name) else {
        return Outcome::Pass(PassInfo { nontrivial: false, fp, classes: vec!["typeid:variant-unavailable(no-module)"] });
    };
    if !rt.module_usable(&rt.prep.modules[var_m].clone()) {
        return Outcome::Pass(PassInfo { nontrivial: false, fp, classes: vec!["typeid:variant-unavailable(module-did-not-compile)"] });
    }
    let var_units: Vec<Unit> = group.deps.iter().cloned().chain(std::iter::once(variant.main.clone())).collect();
    let var_ir = Ir::build(&var_units.iter().collect::<Vec<_>>());
    let base_nodes: Vec<String> = batch::nodes(&group.main.model).iter().map(|n| n.name.clone()).collect();
    let var_nodes: BTreeSet<String> = batch::nodes(&variant.main.model).iter().map(|n| n.name.clone()).collect();

    // which base nodes must change
    let (must_change, label): (BTreeSet<String>, &'static str) = match &variant.edit {
        None => (BTreeSet::new(), variant.label),
        Some(e) => {
            let mut set = BTreeSet::new();
            if e.all_change {
                set.extend(base_nodes.iter().cloned());
            } else {
                for ed in &e.edited {
                    set.extend(batch::ancestors(&group.main.model, ed));
                    // ancestors in the edited schema, mapped back to base names
                    let new_name = e.renamed.get(ed).cloned().unwrap_or_else(|| ed.clone());
                    let back: BTreeMap<&String, &String> = e.renamed.iter().map(|(a, b)| (b, a)).collect();
                    for a in batch::ancestors(&variant.main.model, &new_name) {
                        set.insert(back.get(&a).map(|s| (*s).clone()).unwrap_or(a));
                    }
                }
            }
            (set, e.label)
        }
    };
    let mut two_hop = false;
    if let Some(e) = &variant.edit {
        for ed in &e.edited {
            if batch::max_distance_to(&group.main.model, ed) >= 2 {
                two_hop = true;
            }
        }
    }

    let mut compared = 0;
    for name in &base_nodes {
        let new_name = variant.edit.as_ref().and_then(|e| e.renamed.get(name).cloned()).unwrap_or_else(|| name.clone());
        if !var_nodes.contains(&new_name) {
            continue;
        }
        let a = match server_id(rt, &gencrate::type_key(gi, "base", &main, name)) {
            Ok(i) => i,
            Err(o) => return o,
        };
        let b = match server_id(rt, &gencrate::type_key(gi, &variant.tag, &variant.main.name, &new_name)) {
            Ok(i) => i,
            Err(o) => return o,
        };
        // the hand-built IR of the variant must agree with its generated code as well
        if let Some(h) = var_ir.type_id(&variant.main.name, &new_name) {
            if h != b {
                return Outcome::fail(
                    "typeid:generated-vs-hand-built-ir:variant",
                    format!("variant {} ({}) type {}: generated code reports {:?}, hand-built IR gives {:?}", variant.tag, label, new_name, b, h),
                );
            }
        }
        compared += 1;
        let changed = a != b;
        let must = must_change.contains(name);
        if variant.edit.is_none() {
            if changed {
                return Outcome::fail(
                    format!("typeid:changed-by-{label}"),
                    format!("group {gi}: the id of `{main}::{name}` differs between the schema and its `{label}` variant: {:?} vs {:?}", a, b),
                );
            }
        } else if must && !changed {
            return Outcome::fail(
                format!("typeid:unchanged-after-{label}"),
                format!("group {gi}: {label} (edited: {:?}) must change the id of `{main}::{name}`, but it stayed {:?}", variant.edit.as_ref().unwrap().edited, a),
            );
        } else if !must && changed {
            return Outcome::fail(
                format!("typeid:unrelated-changed-after-{label}"),
                format!("group {gi}: {label} (edited: {:?}) changed the id of the unrelated `{main}::{name}`: {:?} -> {:?}", variant.edit.as_ref().unwrap().edited, a, b),
            );
        }
    }
    if compared == 0 {
        return Outcome::Pass(PassInfo { nontrivial: false, fp, classes: vec!["typeid:nothing-to-compare"] });
    }
    let mut classes: Vec<&'static str> = vec![];
    match variant.label {
        "perm" => classes.push("typeid:perm-ok"),
        "doc" => classes.push("typeid:doc-ok"),
        l => {
            classes.push("typeid:edit-ok");
            classes.push(l);
            if two_hop {
                classes.push("typeid:edit-two-hops-away");
            }
            if must_change.len() < base_nodes.len() {
                classes.push("typeid:edit-leaves-unrelated-types");
            }
        }
    }
    Outcome::Pass(PassInfo { nontrivial, fp, classes })
}
