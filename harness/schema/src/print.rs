//! Layout printer: turns a `Model` into source text. Derived rule by rule from
//! `parser/grammar.pest`:
//!
//! * implicit white space (`WHITESPACE = WHITE_SPACE`, any amount, including none) is allowed
//!   between the tokens of every non-atomic rule, so every token boundary is a *gap*;
//! * keywords defined as `"kw" ~ &ws` (`import struct enum service fn event const newtype
//!   required`) need at least one real white-space character after them;
//! * comments are not implicit: `//`, `///`, `//!` lines and attributes appear exactly where a
//!   rule names them, and a comment/doc line extends to `\n`, `\r\n` or the end of input.
//!
//! With `Style::noise == 0` the layout is plain (single spaces, one item per line); higher noise
//! replaces gaps by random white space including blank lines, tabs, CR LF, lone CR and Unicode
//! white space.

use crate::model::*;
use vcommon::SplitMix;

#[derive(Debug, Clone, Copy)]
pub struct Style {
    /// 0 = plain layout, 1..=3 = share of randomised gaps.
    pub noise: u8,
    /// Allow lone CR, vertical tab, form feed and Unicode white space in gaps.
    pub exotic: bool,
    /// Line ending of comment/doc lines and plain line breaks: 0 = LF, 1 = CR LF, 2 = mixed.
    pub nl: u8,
    /// White space (at least a line break in plain layout) after the last token.
    pub final_newline: bool,
    /// Single-line bodies where the grammar allows (`struct A { a @ 1 = u8; }`).
    pub compact: bool,
    pub seed: u64,
}

impl Style {
    pub fn plain() -> Self {
        Style { noise: 0, exotic: false, nl: 0, final_newline: true, compact: false, seed: 0 }
    }

    pub fn from_tape(t: &mut vcommon::Tape) -> Self {
        let noise = t.below(4) as u8;
        let flags = t.u8();
        Style {
            noise,
            exotic: flags & 1 != 0,
            nl: ((flags >> 1) % 3),
            final_newline: flags & 0x10 == 0,
            compact: flags & 0x20 != 0,
            seed: t.u32() as u64,
        }
    }
}

const WS: &[&str] = &[" ", "  ", "\t", "\n", "\n\n", "\r\n", "\n    ", " \n", "\n\n\n", "    ", "\r\n\r\n", "\n\t"];
const EXOTIC_WS: &[&str] = &[
    "\r", "\u{a0}", "\u{2003}", "\u{3000}", "\u{2028}", "\u{2029}", "\u{85}", "\x0b", "\x0c", "\u{1680}", "\u{205f}", "\u{202f}",
    "\r\r", " \r ", "\u{2009}\n",
];

pub struct Printer {
    pub out: String,
    rng: SplitMix,
    st: Style,
}

impl Printer {
    pub fn new(st: Style) -> Self {
        Printer { out: String::new(), rng: SplitMix(st.seed ^ 0x5eed), st }
    }

    fn noisy(&mut self) -> bool {
        match self.st.noise {
            0 => false,
            1 => self.rng.below(8) == 0,
            2 => self.rng.below(3) == 0,
            _ => self.rng.below(3) != 0,
        }
    }

    fn nl(&mut self) -> &'static str {
        match self.st.nl {
            0 => "\n",
            1 => "\r\n",
            _ => {
                if self.rng.below(2) == 0 {
                    "\n"
                } else {
                    "\r\n"
                }
            }
        }
    }

    fn random_ws(&mut self) -> &'static str {
        if self.st.exotic && self.rng.below(3) == 0 {
            EXOTIC_WS[self.rng.below(EXOTIC_WS.len())]
        } else {
            WS[self.rng.below(WS.len())]
        }
    }

    /// Optional gap; `plain` is what the plain layout puts there.
    fn gap(&mut self, plain: &str) {
        if self.noisy() {
            match self.rng.below(4) {
                0 => {}
                1 => {
                    let a = self.random_ws();
                    let b = self.random_ws();
                    self.out.push_str(a);
                    self.out.push_str(b);
                }
                _ => {
                    let a = self.random_ws();
                    self.out.push_str(a);
                }
            }
        } else {
            self.out.push_str(plain);
        }
    }

    fn sp(&mut self) {
        self.gap(" ");
    }

    fn tight(&mut self) {
        self.gap("");
    }

    /// Required white space (after a `"kw" ~ &ws` keyword).
    fn req(&mut self) {
        if self.noisy() {
            let a = self.random_ws();
            self.out.push_str(a);
            if self.rng.below(3) == 0 {
                let b = self.random_ws();
                self.out.push_str(b);
            }
        } else {
            self.out.push(' ');
        }
    }

    /// Gap in front of an item that the plain layout starts on a new line.
    fn line(&mut self, indent: usize) {
        if self.noisy() {
            self.gap("");
        } else if self.st.compact {
            if !self.out.is_empty() && !self.out.ends_with('\n') {
                self.out.push(' ');
            }
        } else {
            if !self.out.is_empty() && !self.out.ends_with('\n') {
                let nl = self.nl();
                self.out.push_str(nl);
            }
            for _ in 0..indent {
                self.out.push(' ');
            }
        }
    }

    fn tok(&mut self, s: &str) {
        self.out.push_str(s);
    }

    /// A comment/doc line: introducer, text, line ending.
    fn line_tok(&mut self, intro: &str, text: &str, indent: usize) {
        self.line(indent);
        self.out.push_str(intro);
        self.out.push_str(text);
        let nl = self.nl();
        self.out.push_str(nl);
    }

    fn attr(&mut self, a: &Attr, inner: bool, indent: usize) {
        self.line(indent);
        self.tok("#");
        self.tight();
        if inner {
            self.tok("!");
            self.tight();
        }
        self.tok("[");
        self.tight();
        self.tok(&a.name);
        self.tight();
        if !a.opts.is_empty() {
            self.tok("(");
            self.tight();
            for (i, o) in a.opts.iter().enumerate() {
                if i > 0 {
                    self.tok(",");
                    self.sp();
                }
                self.tok(o);
                self.tight();
            }
            if a.trailing_comma {
                self.tok(",");
                self.tight();
            }
            self.tok(")");
            self.tight();
        }
        self.tok("]");
    }

    fn pre(&mut self, pre: &[Pre], indent: usize) {
        for p in pre {
            match p {
                Pre::Comment(c) => self.line_tok("//", c, indent),
                Pre::Doc(d) => self.line_tok("///", d, indent),
                Pre::InnerDoc(d) => self.line_tok("//!", d, indent),
                Pre::Attr(a) => self.attr(a, false, indent),
                Pre::InnerAttr(a) => self.attr(a, true, indent),
            }
        }
    }

    fn named(&mut self, schema: &Option<String>, name: &str) {
        if let Some(s) = schema {
            self.tok(s);
            self.tight();
            self.tok("::");
            self.tight();
        }
        self.tok(name);
    }

    fn ty(&mut self, t: &Ty) {
        match t {
            Ty::Kw(k) => self.tok(k),
            Ty::Gen1(k, a) => {
                self.tok(k);
                self.tight();
                self.tok("<");
                self.tight();
                self.ty(a);
                self.tight();
                self.tok(">");
            }
            Ty::Map(k, v) => {
                self.tok("map");
                self.tight();
                self.tok("<");
                self.tight();
                self.ty(k);
                self.sp();
                self.tok("->");
                self.sp();
                self.ty(v);
                self.tight();
                self.tok(">");
            }
            Ty::Result(a, b) => {
                self.tok("result");
                self.tight();
                self.tok("<");
                self.tight();
                self.ty(a);
                self.tight();
                self.tok(",");
                self.sp();
                self.ty(b);
                self.tight();
                self.tok(">");
            }
            Ty::Array(e, len) => {
                self.tok("[");
                self.tight();
                self.ty(e);
                self.tight();
                self.tok(";");
                self.sp();
                match len {
                    ArrLen::Lit(l) => self.tok(l),
                    ArrLen::Ref(s, n) => self.named(s, n),
                }
                self.tight();
                self.tok("]");
            }
            Ty::Ref(s, n) => self.named(s, n),
        }
    }

    fn fallback_line(&mut self, kw: Option<&str>, f: &Fallback, indent: usize) {
        self.pre(&f.pre, indent);
        self.line(indent);
        if let Some(kw) = kw {
            self.tok(kw);
            self.req();
        }
        self.tok(&f.name);
        self.sp();
        self.tok("=");
        self.sp();
        self.tok("fallback");
        self.tight();
        self.tok(";");
    }

    fn struct_body(&mut self, b: &StructBody, indent: usize) {
        self.tok("{");
        self.pre(&b.inner, indent + 4);
        for f in &b.fields {
            self.pre(&f.pre, indent + 4);
            self.line(indent + 4);
            if f.required {
                self.tok("required");
                self.req();
            }
            self.tok(&f.name);
            self.sp();
            self.tok("@");
            self.sp();
            self.tok(&f.id);
            self.sp();
            self.tok("=");
            self.sp();
            self.ty(&f.ty);
            self.tight();
            self.tok(";");
        }
        if let Some(f) = &b.fallback {
            self.fallback_line(None, f, indent + 4);
        }
        if b.inner.is_empty() && b.fields.is_empty() && b.fallback.is_none() {
            self.tight();
        } else {
            self.line(indent);
        }
        self.tok("}");
    }

    fn enum_body(&mut self, b: &EnumBody, indent: usize) {
        self.tok("{");
        self.pre(&b.inner, indent + 4);
        for v in &b.variants {
            self.pre(&v.pre, indent + 4);
            self.line(indent + 4);
            self.tok(&v.name);
            self.sp();
            self.tok("@");
            self.sp();
            self.tok(&v.id);
            if let Some(t) = &v.ty {
                self.sp();
                self.tok("=");
                self.sp();
                self.ty(t);
            }
            self.tight();
            self.tok(";");
        }
        if let Some(f) = &b.fallback {
            self.fallback_line(None, f, indent + 4);
        }
        if b.inner.is_empty() && b.variants.is_empty() && b.fallback.is_none() {
            self.tight();
        } else {
            self.line(indent);
        }
        self.tok("}");
    }

    /// `type_name_or_inline = (type_name ~ ";") | struct_inline | enum_inline`
    fn ty_or_inline(&mut self, t: &TyOrInline, indent: usize) {
        match t {
            TyOrInline::Ty(t) => {
                self.ty(t);
                self.tight();
                self.tok(";");
            }
            TyOrInline::Struct(b) => {
                self.tok("struct");
                self.req();
                self.struct_body(b, indent);
            }
            TyOrInline::Enum(b) => {
                self.tok("enum");
                self.req();
                self.enum_body(b, indent);
            }
        }
    }

    fn fn_part(&mut self, kw: &str, p: &FnPart, indent: usize) {
        self.pre(&p.pre, indent);
        self.line(indent);
        self.tok(kw);
        self.sp();
        self.tok("=");
        self.sp();
        self.ty_or_inline(&p.ty, indent);
    }

    fn service(&mut self, s: &Service) {
        self.pre(&s.pre, 0);
        self.line(0);
        self.tok("service");
        self.req();
        self.tok(&s.name);
        self.sp();
        self.tok("{");
        self.pre(&s.uuid_pre, 4);
        self.line(4);
        self.tok("uuid");
        self.sp();
        self.tok("=");
        self.sp();
        self.tok(&s.uuid);
        self.tight();
        self.tok(";");
        self.pre(&s.ver_pre, 4);
        self.line(4);
        self.tok("version");
        self.sp();
        self.tok("=");
        self.sp();
        self.tok(&s.ver);
        self.tight();
        self.tok(";");
        for item in &s.items {
            match item {
                Item::Fn(f) => {
                    self.pre(&f.pre, 4);
                    self.line(4);
                    self.tok("fn");
                    self.req();
                    self.tok(&f.name);
                    self.sp();
                    self.tok("@");
                    self.sp();
                    self.tok(&f.id);
                    match &f.body {
                        FnBody::Term => {
                            self.tight();
                            self.tok(";");
                        }
                        FnBody::Ok(t) => {
                            self.sp();
                            self.tok("=");
                            self.sp();
                            self.ty_or_inline(t, 4);
                        }
                        FnBody::Full { args, ok, err } => {
                            self.sp();
                            self.tok("{");
                            if let Some(p) = args {
                                self.fn_part("args", p, 8);
                            }
                            if let Some(p) = ok {
                                self.fn_part("ok", p, 8);
                            }
                            if let Some(p) = err {
                                self.fn_part("err", p, 8);
                            }
                            if args.is_none() && ok.is_none() && err.is_none() {
                                self.tight();
                            } else {
                                self.line(4);
                            }
                            self.tok("}");
                        }
                    }
                }
                Item::Ev(e) => {
                    self.pre(&e.pre, 4);
                    self.line(4);
                    self.tok("event");
                    self.req();
                    self.tok(&e.name);
                    self.sp();
                    self.tok("@");
                    self.sp();
                    self.tok(&e.id);
                    match &e.ty {
                        None => {
                            self.tight();
                            self.tok(";");
                        }
                        Some(t) => {
                            self.sp();
                            self.tok("=");
                            self.sp();
                            self.ty_or_inline(t, 4);
                        }
                    }
                }
            }
        }
        for (is_fn, f) in &s.fallbacks {
            self.fallback_line(Some(if *is_fn { "fn" } else { "event" }), f, 4);
        }
        self.line(0);
        self.tok("}");
    }

    fn def(&mut self, d: &Def) {
        match d {
            Def::Struct { pre, name, body } => {
                self.pre(pre, 0);
                self.line(0);
                self.tok("struct");
                self.req();
                self.tok(name);
                self.sp();
                self.struct_body(body, 0);
            }
            Def::Enum { pre, name, body } => {
                self.pre(pre, 0);
                self.line(0);
                self.tok("enum");
                self.req();
                self.tok(name);
                self.sp();
                self.enum_body(body, 0);
            }
            Def::Service(s) => self.service(s),
            Def::Const { pre, name, val } => {
                self.pre(pre, 0);
                self.line(0);
                self.tok("const");
                self.req();
                self.tok(name);
                self.sp();
                self.tok("=");
                self.sp();
                let (kw, lit): (&str, &str) = match val {
                    ConstVal::Int(k, l) => (k, l),
                    ConstVal::Str(s) => ("string", s),
                    ConstVal::Uuid(u) => ("uuid", u),
                };
                self.tok(kw);
                self.tight();
                self.tok("(");
                self.tight();
                self.tok(lit);
                self.tight();
                self.tok(")");
                self.tight();
                self.tok(";");
            }
            Def::Newtype { pre, name, ty } => {
                self.pre(pre, 0);
                self.line(0);
                self.tok("newtype");
                self.req();
                self.tok(name);
                self.sp();
                self.tok("=");
                self.sp();
                self.ty(ty);
                self.tight();
                self.tok(";");
            }
        }
    }

    pub fn schema(mut self, m: &Model) -> String {
        // leading white space before the first token
        if self.noisy() {
            self.gap("");
        }
        self.pre(&m.header, 0);
        for i in &m.imports {
            self.pre(&i.pre, 0);
            self.line(0);
            self.tok("import");
            self.req();
            self.tok(&i.name);
            self.tight();
            self.tok(";");
        }
        for d in &m.defs {
            self.def(d);
        }
        if self.st.final_newline {
            if self.noisy() {
                self.gap("\n");
            } else if !self.out.is_empty() && !self.out.ends_with('\n') {
                let nl = self.nl();
                self.out.push_str(nl);
            }
        } else if m.imports.is_empty() && m.defs.is_empty() {
            // header only: the last `//!` line may end at the end of input
            if let Some(stripped) = self.out.strip_suffix("\r\n") {
                self.out = stripped.to_string();
            } else if let Some(stripped) = self.out.strip_suffix('\n') {
                self.out = stripped.to_string();
            }
        }
        self.out
    }
}

pub fn print(m: &Model, st: Style) -> String {
    Printer::new(st).schema(m)
}
