//! C18 Formatter preserves the schema and is idempotent.

use crate::front::{self, Input, Other};
use crate::model::{self, Cfg, DocMode, Exports, Gen, Model};
use crate::print::{self, Style};
use crate::repo;
use aldrin_parser::{Diagnostic, Formatter, Parser};
use vcommon::{catch, CheckDef, ClassPlan, Ctx, Outcome, PassInfo, Tape, Tier};

pub static DEF: CheckDef = CheckDef {
    id: "C18",
    level: "exploration",
    rule: "Cases are schemas built by a grammar-directed generator (one model constructor per rule of parser/grammar.pest: header docs, imports incl. duplicates/unsorted/unresolvable, structs, enums, newtypes, consts, services with functions (term / `= T` / args-ok-err bodies, inline structs and enums), events, all four kinds of fallbacks, attributes and inline attributes with options, every built-in type, nested generics, arrays with literal and const lengths, external references) and printed by a layout printer that randomises every token gap (none / spaces / tabs / blank lines / CR LF / lone CR / Unicode white space), puts `//`, `///`, `//!` lines and attributes in every position and interleaving the grammar permits, and chooses single- vs multi-line bodies; noise levels inject duplicate ids/names, unknown types, non-canonical case, invalid ids/values so that diagnostics are non-empty; plus every .aldrin file of the repository (class repo-file, enumerated). A case is non-trivial when the parsed input has >= 3 definitions, >= 1 comment and >= 1 doc comment inside definition bodies (on a field, variant, function, event, function part, uuid/version line, fallback or inline type - not merely leading a definition or the file) and >= 1 inline struct/enum; distinct = distinct source text. Generated sources that the parser rejects as invalid syntax are generator defects: counted as generator-syntax-error, never reported as violations.",
    assumptions: &[
        "\"same schema\" is decided on a projection of the public AST accessors: definition order, names, ids, types, required, attributes with options, comment and doc lists by value_inner() (the formatter normalises one leading space and trailing white space of comment text), fallbacks, service uuid/version; imports as a sorted set of names, plus the sorted multiset of (import, its comments) for commented imports",
        "\"same errors and warnings, positions aside\" is decided on the multiset of (kind, schema name, title line of the plain rendering)",
        "imports resolve against the same in-memory schema set before and after formatting",
    ],
    plan,
    case,
    render,
    crashy: true,
    floors: &[
        ("nontrivial:generated", 0.12),
        ("defs>=3", 0.35),
        ("has-inline", 0.25),
        ("has-comment-nonleading", 0.30),
        ("has-doc-nonleading", 0.25),
        ("has-attribute", 0.15),
        ("has-fallback", 0.25),
        ("has-diagnostics", 0.40),
        ("no-errors", 0.08),
        ("layout-noisy", 0.50),
        ("layout-exotic-ws", 0.20),
        ("imports-unsorted-or-dup", 0.03),
    ],
    extra: Some(extra),
    extra_coverage: Some(extra_coverage),
};

fn plan(t: Tier) -> Vec<ClassPlan> {
    let k = match t {
        Tier::Quick => 1,
        Tier::Thorough => 30,
    };
    vec![ClassPlan { class: "generated", cases: 48_000 * k, min_len: 8, max_len: 900 }]
}

fn extra(ctx: &mut Ctx) {
    let n = repo::files().len();
    for i in 0..n {
        ctx.eval_case("repo-file", &(i as u16).to_le_bytes());
    }
}

fn extra_coverage(_t: Tier) -> serde_json::Value {
    serde_json::json!({
        "repo_files": repo::files().len(),
        "repo_root": vcommon::repo_root().to_string_lossy(),
    })
}

pub struct Generated {
    pub input: Input,
    pub model: Model,
    pub style: Style,
    pub noise: u8,
}

/// Decodes a tape into a schema set: up to two small importable schemas and the main schema.
/// `docs` overrides the doc mode of the main schema (C17 reuses this generator with adversarial
/// doc comments).
pub fn generate(t: &mut Tape, docs: Option<DocMode>, force_clean: bool) -> Generated {
    let noise = if force_clean { 0 } else { t.weighted(&[3, 3, 4]) as u8 };
    let comments = 1 + t.below(3) as u8;
    let style = Style::from_tape(t);
    let n_others = t.below(3);
    let mut importable: Vec<Exports> = vec![];
    let mut others: Vec<Other> = vec![];
    for i in 0..n_others {
        let name = ["a", "b"][i];
        let cfg = Cfg {
            noise: 0,
            docs: DocMode::None,
            comments: 0,
            max_defs: 3,
            importable: importable.clone(),
            schema_index: (i + 1) as u32,
            rich: false,
        };
        let mut g = Gen::new(t, cfg);
        let m = g.schema(name);
        let ex = g.exports.clone();
        importable.push(ex);
        others.push(Other { name: name.to_string(), source: Some(print::print(&m, Style::plain())) });
    }
    let cfg = Cfg {
        noise,
        docs: docs.unwrap_or(DocMode::Plain),
        comments,
        max_defs: 7,
        importable,
        schema_index: 0,
        rich: false,
    };
    let mut g = Gen::new(t, cfg);
    let model = g.schema("main");
    let source = print::print(&model, style);
    Generated { input: Input { name: "main".to_string(), source, others }, model, style, noise }
}

fn repo_input(tape: &[u8]) -> Option<(usize, Input)> {
    let i = u16::from_le_bytes([*tape.first()?, *tape.get(1)?]) as usize;
    let f = repo::files().get(i)?;
    let others = repo::siblings(i).into_iter().map(|(name, s)| Other { name, source: Some(s) }).collect();
    Some((i, Input { name: f.stem.clone(), source: f.text.clone(), others }))
}

fn render(class: &str, tape: &[u8]) -> String {
    if class == "repo-file" {
        return match repo_input(tape) {
            Some((i, _)) => format!("repository file #{} {}", i, repo::files()[i].rel),
            None => "repository file: bad index".into(),
        };
    }
    if class == "text" {
        return format!("raw source text:\n{}", crate::c17::raw_input(&String::from_utf8_lossy(tape)).render());
    }
    let mut t = Tape::new(tape);
    let g = generate(&mut t, None, false);
    format!("noise={} style={:?}\n{}", g.noise, g.style, g.input.render())
}

/// Multiset of (kind, schema, title) as sorted lines.
pub fn diag_keys(p: &Parser) -> Result<Vec<String>, vcommon::Panicked> {
    let r = front::plain_renderer();
    let mut v = vec![];
    for d in front::diagnostics(p) {
        let text = catch(|| d.render(&r, p))?;
        v.push(format!("{} [{}] {}", front::kind_name(d.kind()), d.schema_name(), front::title_of(&text)));
    }
    v.sort();
    Ok(v)
}

fn first_diff(a: &[String], b: &[String]) -> (usize, String, String) {
    let n = a.len().max(b.len());
    for i in 0..n {
        let x = a.get(i).cloned().unwrap_or_else(|| "<end>".into());
        let y = b.get(i).cloned().unwrap_or_else(|| "<end>".into());
        if x != y {
            return (i, x, y);
        }
    }
    (n, "<none>".into(), "<none>".into())
}

macro_rules! stage {
    ($name:expr, $body:expr) => {
        match catch(|| $body) {
            Ok(v) => v,
            Err(p) => {
                return Outcome::fail(format!("panic:{}:{}", $name, front::loc(&p)), format!("{} panicked: {}", $name, p.0));
            }
        }
    };
}

fn case(class: &str, tape: &[u8], _strict: bool) -> Outcome {
    let mut classes: Vec<&'static str> = vec![];
    let (input, is_repo) = if class == "repo-file" {
        match repo_input(tape) {
            Some((_, i)) => (i, true),
            None => return Outcome::fail("harness:bad-repo-index", "tape does not name a repository file"),
        }
    } else if class == "text" {
        // raw source text (libFuzzer target format_text, hand-written replays): the tape is the
        // main schema's source, `=== schema <name> ===` lines start further resolvable schemas
        classes.push("raw-text");
        (crate::c17::raw_input(&String::from_utf8_lossy(tape)), false)
    } else {
        let mut t = Tape::new(tape);
        let g = generate(&mut t, None, false);
        let ms = model::model_shape(&g.model);
        if g.style.noise > 0 {
            classes.push("layout-noisy");
            if g.style.exotic {
                classes.push("layout-exotic-ws");
            }
        }
        if g.style.nl > 0 {
            classes.push("layout-crlf");
        }
        if g.style.compact {
            classes.push("layout-compact");
        }
        if ms.dup_imports || ms.unsorted_imports {
            classes.push("imports-unsorted-or-dup");
        }
        classes.push(match g.noise {
            0 => "noise:clean",
            1 => "noise:light",
            _ => "noise:heavy",
        });
        (g.input, false)
    };
    // one fresh thread per case with seeded randomness: hash-map iteration orders inside the
    // parser become a function of the case, so every verdict is replayable
    let seed = vcommon::mix(input.fingerprint(), 0x18);
    match vcommon::with_det_seed(seed, 8 << 20, move || check(input, is_repo, classes)) {
        Ok(o) => o,
        Err(_) => {
            let p = vcommon::last_panic_any_thread();
            Outcome::fail(format!("harness-or-sut-panic:{}", front::loc(&p)), format!("uncaught panic on the case thread: {}", p.0))
        }
    }
}

fn check(mut input: Input, is_repo: bool, mut classes: Vec<&'static str>) -> Outcome {
    let fp = input.fingerprint();
    // A panic while parsing the *source* is not the formatter's doing: it is C17's subject
    // (front end is total). Such cases are counted and skipped here.
    let mut p0 = match catch(|| front::parse(&input)) {
        Ok(p) => p,
        Err(_) => {
            classes.push("source-parse-panic(C17)");
            return Outcome::Pass(PassInfo { nontrivial: false, fp, classes });
        }
    };
    let mut refused = stage!("format-new", Formatter::new(&p0).err().map(|errs| {
        errs.iter().map(|e| e.schema_name().to_string()).collect::<Vec<_>>()
    }));
    if let Some(names) = &refused {
        if is_repo && !names.iter().any(|n| *n == input.name) {
            // an imported sibling does not parse: format the file on its own
            input.others.clear();
            p0 = stage!("parse", front::parse(&input));
            refused = stage!("format-new", Formatter::new(&p0).err().map(|errs| {
                errs.iter().map(|e| e.schema_name().to_string()).collect::<Vec<_>>()
            }));
            classes.push("repo-file-without-imports");
        }
    }
    if refused.is_some() {
        // not a syntactically valid schema: outside the property's domain
        classes.push(if is_repo { "repo-file-syntax-error" } else { "generator-syntax-error" });
        return Outcome::Pass(PassInfo { nontrivial: false, fp, classes });
    }

    let f1 = stage!("format", Formatter::new(&p0).map(|f| f.to_string()).ok()).expect("formatter refused after accepting");
    let input1 = Input { name: input.name.clone(), source: f1.clone(), others: input.others.clone() };
    let p1 = stage!("parse-formatted", front::parse(&input1));
    let refused1 = stage!("format-new", Formatter::new(&p1).is_err());
    if refused1 {
        let r = front::plain_renderer();
        let errs: Vec<String> = p1.errors().iter().map(|e| catch(|| e.render(&r, &p1)).unwrap_or_else(|p| p.0)).collect();
        return Outcome::fail(
            "format:output-has-syntax-error",
            format!("the formatted text does not parse:\n{}\nformatted:\n{}", errs.join("\n"), front::escaped_lines(&f1)),
        );
    }

    // same schema
    let a = stage!("project", front::proj(p0.main_schema()));
    let b = stage!("project", front::proj(p1.main_schema()));
    if a != b {
        let (i, x, y) = first_diff(&a, &b);
        let word = |s: &str| s.trim_start().split(' ').next().unwrap_or("").to_string();
        let w = if x == "<end>" { word(&y) } else { word(&x) };
        return Outcome::fail(
            format!("format:ast-differs:{}", w),
            format!(
                "projection line {} differs\n  source   : {}\n  formatted: {}\nformatted text:\n{}",
                i,
                x,
                y,
                front::escaped_lines(&f1)
            ),
        );
    }

    // same diagnostics, positions aside
    let d0 = match diag_keys(&p0) {
        Ok(d) => d,
        Err(p) => return Outcome::fail(format!("panic:render:{}", front::loc(&p)), format!("render panicked: {}", p.0)),
    };
    let d1 = match diag_keys(&p1) {
        Ok(d) => d,
        Err(p) => return Outcome::fail(format!("panic:render-formatted:{}", front::loc(&p)), format!("render panicked: {}", p.0)),
    };
    if d0 != d1 {
        let only0: Vec<&String> = d0.iter().filter(|x| d0.iter().filter(|y| y == x).count() != d1.iter().filter(|y| y == x).count()).collect();
        let only1: Vec<&String> = d1.iter().filter(|x| d0.iter().filter(|y| y == x).count() != d1.iter().filter(|y| y == x).count()).collect();
        return Outcome::fail(
            "format:diagnostics-differ",
            format!(
                "diagnostics of source and formatted text differ (count differs for):\n  source   : {:?}\n  formatted: {:?}\nformatted text:\n{}",
                only0,
                only1,
                front::escaped_lines(&f1)
            ),
        );
    }

    // idempotence
    let f2 = stage!("format-again", Formatter::new(&p1).map(|f| f.to_string()).ok()).expect("checked above");
    if f2 != f1 {
        let l1: Vec<String> = f1.split_inclusive('\n').map(|s| s.to_string()).collect();
        let l2: Vec<String> = f2.split_inclusive('\n').map(|s| s.to_string()).collect();
        let (i, x, y) = first_diff(&l1, &l2);
        return Outcome::fail(
            "format:not-idempotent",
            format!(
                "formatting the formatted text changes it; first differing line {}:\n  once : {:?}\n  twice: {:?}\nformatted once:\n{}",
                i + 1,
                x,
                y,
                front::escaped_lines(&f1)
            ),
        );
    }

    let sh = front::shape(p0.main_schema());
    if sh.defs >= 3 {
        classes.push("defs>=3");
    }
    if sh.inline_types >= 1 {
        classes.push("has-inline");
    }
    if sh.nested_comments >= 1 {
        classes.push("has-comment-nonleading");
    }
    if sh.nested_docs >= 1 {
        classes.push("has-doc-nonleading");
    }
    if sh.attributes >= 1 {
        classes.push("has-attribute");
    }
    if sh.services >= 1 {
        classes.push("has-service");
    }
    if sh.fallbacks >= 1 {
        classes.push("has-fallback");
    }
    if sh.imports >= 1 {
        classes.push("has-import");
    }
    if !d0.is_empty() {
        classes.push("has-diagnostics");
    }
    if p0.errors().is_empty() {
        classes.push("no-errors");
    }
    if d0.iter().any(|d| d.contains("broken doc link")) {
        classes.push("doc-link-warning");
    }
    if f1 == input.source {
        classes.push("already-formatted");
    }
    let nontrivial = sh.defs >= 3 && sh.nested_comments >= 1 && sh.nested_docs >= 1 && sh.inline_types >= 1;
    Outcome::Pass(PassInfo { nontrivial, fp, classes })
}
