//! Glue to the code under test: an in-memory resolver over a case's schema set, diagnostics
//! collection / rendering, formatting, and the span-free projection of the public AST.

use aldrin_parser::ast::{
    ArrayLenValue, Attribute, Comment, ConstValue, Definition, DocString, EnumFallback,
    EnumVariant, FunctionPart, InlineEnum, InlineStruct, NamedRef, NamedRefKind, ServiceItem,
    StructFallback, StructField, TypeName, TypeNameKind, TypeNameOrInline,
};
use aldrin_parser::{Diagnostic, DiagnosticKind, Parser, Renderer, Resolver, Schema, SchemaFile};
use std::io;

/// One importable schema offered by the resolver. `source == None` models a schema file that
/// exists but cannot be read (I/O error).
#[derive(Debug, Clone)]
pub struct Other {
    pub name: String,
    pub source: Option<String>,
}

/// A complete parser input: the main schema plus what the resolver can find.
#[derive(Debug, Clone)]
pub struct Input {
    pub name: String,
    pub source: String,
    pub others: Vec<Other>,
}

impl Input {
    pub fn single(name: &str, source: String) -> Self {
        Input { name: name.to_string(), source, others: vec![] }
    }

    pub fn fingerprint(&self) -> u64 {
        let mut b = Vec::with_capacity(self.source.len() + 64);
        b.extend_from_slice(self.name.as_bytes());
        b.push(0);
        b.extend_from_slice(self.source.as_bytes());
        for o in &self.others {
            b.push(0xff);
            b.extend_from_slice(o.name.as_bytes());
            b.push(0);
            match &o.source {
                Some(s) => b.extend_from_slice(s.as_bytes()),
                None => b.push(0xfe),
            }
        }
        vcommon::fingerprint(&b)
    }

    pub fn total_len(&self) -> usize {
        self.source.len() + self.others.iter().map(|o| o.source.as_ref().map_or(0, |s| s.len())).sum::<usize>()
    }

    /// Human-readable, unambiguous rendering (control and non-ASCII characters escaped).
    pub fn render(&self) -> String {
        let mut s = String::new();
        s.push_str(&format!("main schema `{}` ({} bytes):\n", self.name.escape_debug(), self.source.len()));
        s.push_str(&escaped_lines(&self.source));
        for o in &self.others {
            match &o.source {
                Some(src) => {
                    s.push_str(&format!("resolvable schema `{}` ({} bytes):\n", o.name.escape_debug(), src.len()));
                    s.push_str(&escaped_lines(src));
                }
                None => s.push_str(&format!("schema `{}`: I/O error on read\n", o.name.escape_debug())),
            }
        }
        s
    }
}

pub fn escaped_lines(src: &str) -> String {
    let mut s = String::new();
    for l in src.split_inclusive('\n') {
        s.push_str("  | ");
        for c in l.chars() {
            if c == ' ' || (c.is_ascii_graphic()) {
                if c == '\\' {
                    s.push_str("\\\\");
                } else {
                    s.push(c);
                }
            } else {
                s.push_str(&c.escape_default().to_string());
            }
        }
        s.push('\n');
    }
    s
}

struct OwnedFile {
    name: String,
    path: String,
    source: Result<String, io::Error>,
}

impl OwnedFile {
    fn file(&self) -> SchemaFile<'_> {
        SchemaFile::new(&self.name, &self.path, self.source.as_ref())
    }
}

/// In-memory resolver; like `MemoryResolver` an import of the main schema's own name resolves to
/// the main schema.
pub struct CaseResolver {
    main: OwnedFile,
    others: Vec<OwnedFile>,
}

impl CaseResolver {
    pub fn new(input: &Input) -> Self {
        CaseResolver {
            main: OwnedFile {
                name: input.name.clone(),
                path: format!("{}.aldrin", input.name),
                source: Ok(input.source.clone()),
            },
            others: input
                .others
                .iter()
                .map(|o| OwnedFile {
                    name: o.name.clone(),
                    path: format!("inc/{}.aldrin", o.name),
                    source: match &o.source {
                        Some(s) => Ok(s.clone()),
                        None => Err(io::Error::new(io::ErrorKind::PermissionDenied, "permission denied (simulated)")),
                    },
                })
                .collect(),
        }
    }
}

impl Resolver for CaseResolver {
    fn main_schema(&self) -> SchemaFile<'_> {
        self.main.file()
    }

    fn resolve(&mut self, name: &str) -> Option<SchemaFile<'_>> {
        if name == self.main.name {
            return Some(self.main.file());
        }
        self.others.iter().find(|o| o.name == name).map(|o| o.file())
    }
}

pub fn parse(input: &Input) -> Parser {
    Parser::parse(CaseResolver::new(input))
}

/// All diagnostics of a parser in reporting order: errors, warnings, other warnings.
pub fn diagnostics(p: &Parser) -> Vec<&dyn Diagnostic> {
    let mut v: Vec<&dyn Diagnostic> = vec![];
    v.extend(p.errors().iter().map(|d| d as &dyn Diagnostic));
    v.extend(p.warnings().iter().map(|d| d as &dyn Diagnostic));
    v.extend(p.other_warnings().iter().map(|d| d as &dyn Diagnostic));
    v
}

pub fn kind_name(k: DiagnosticKind) -> &'static str {
    match k {
        DiagnosticKind::Error => "error",
        DiagnosticKind::Warning => "warning",
    }
}

/// First line of a plain rendering: "error: <title>" / "warning: <title>".
pub fn title_of(rendered_plain: &str) -> String {
    rendered_plain.lines().next().unwrap_or("").trim_end().to_string()
}

pub fn plain_renderer() -> Renderer {
    Renderer::new(false, false, 100)
}

/// "file:line" of a caught panic for signatures: repository-relative for code under test (also
/// when a scratch copy of the repository is used), `<crate>-<version>/src/..` for dependencies.
pub fn loc(p: &vcommon::Panicked) -> String {
    let raw = match p.0.rsplit_once(" @ ") {
        Some((_, l)) => l.to_string(),
        None => return "?".into(),
    };
    let root = format!("{}/", vcommon::repo_root().to_string_lossy().trim_end_matches('/'));
    if let Some(r) = raw.strip_prefix(&root) {
        return r.to_string();
    }
    if let Some(r) = raw.strip_prefix("/repo/") {
        return r.to_string();
    }
    if let Some(i) = raw.find("/registry/src/") {
        let rest = &raw[i + "/registry/src/".len()..];
        if let Some((_, r)) = rest.split_once('/') {
            return r.to_string();
        }
    }
    raw
}

// ---------------------------------------------------------------------------------------------
// projection

fn comments(out: &mut Vec<String>, ind: &str, cs: &[Comment]) {
    for c in cs {
        out.push(format!("{ind}comment {:?}", c.value_inner()));
    }
}

fn docs(out: &mut Vec<String>, ind: &str, ds: &[DocString]) {
    for d in ds {
        out.push(format!("{ind}doc {:?}", d.value_inner()));
    }
}

fn attrs(out: &mut Vec<String>, ind: &str, at: &[Attribute]) {
    for a in at {
        let opts: Vec<&str> = a.options().iter().map(|o| o.value()).collect();
        out.push(format!("{ind}attr {}({})", a.name().value(), opts.join(",")));
    }
}

fn named_ref(r: &NamedRef) -> String {
    match r.kind() {
        NamedRefKind::Intern(i) => i.value().to_string(),
        NamedRefKind::Extern(s, i) => format!("{}::{}", s.value(), i.value()),
    }
}

pub fn type_name(t: &TypeName) -> String {
    match t.kind() {
        TypeNameKind::Bool => "bool".into(),
        TypeNameKind::U8 => "u8".into(),
        TypeNameKind::I8 => "i8".into(),
        TypeNameKind::U16 => "u16".into(),
        TypeNameKind::I16 => "i16".into(),
        TypeNameKind::U32 => "u32".into(),
        TypeNameKind::I32 => "i32".into(),
        TypeNameKind::U64 => "u64".into(),
        TypeNameKind::I64 => "i64".into(),
        TypeNameKind::F32 => "f32".into(),
        TypeNameKind::F64 => "f64".into(),
        TypeNameKind::String => "string".into(),
        TypeNameKind::Uuid => "uuid".into(),
        TypeNameKind::ObjectId => "object_id".into(),
        TypeNameKind::ServiceId => "service_id".into(),
        TypeNameKind::Value => "value".into(),
        TypeNameKind::Option(t) => format!("option<{}>", type_name(t)),
        TypeNameKind::Box(t) => format!("box<{}>", type_name(t)),
        TypeNameKind::Vec(t) => format!("vec<{}>", type_name(t)),
        TypeNameKind::Bytes => "bytes".into(),
        TypeNameKind::Map(k, v) => format!("map<{} -> {}>", type_name(k), type_name(v)),
        TypeNameKind::Set(t) => format!("set<{}>", type_name(t)),
        TypeNameKind::Sender(t) => format!("sender<{}>", type_name(t)),
        TypeNameKind::Receiver(t) => format!("receiver<{}>", type_name(t)),
        TypeNameKind::Lifetime => "lifetime".into(),
        TypeNameKind::Unit => "unit".into(),
        TypeNameKind::Result(a, b) => format!("result<{}, {}>", type_name(a), type_name(b)),
        TypeNameKind::Array(t, len) => {
            let l = match len.value() {
                ArrayLenValue::Literal(l) => format!("lit:{}", l.value()),
                ArrayLenValue::Ref(r) => format!("ref:{}", named_ref(r)),
            };
            format!("[{}; {}]", type_name(t), l)
        }
        TypeNameKind::Ref(r) => format!("ref:{}", named_ref(r)),
    }
}

fn fields(out: &mut Vec<String>, ind: &str, fs: &[StructField], fb: Option<&StructFallback>) {
    let ind2 = format!("{ind}  ");
    for f in fs {
        out.push(format!(
            "{ind}field {}{} @ {} = {}",
            if f.required() { "required " } else { "" },
            f.name().value(),
            f.id().value(),
            type_name(f.field_type())
        ));
        comments(out, &ind2, f.comment());
        docs(out, &ind2, f.doc());
    }
    if let Some(fb) = fb {
        out.push(format!("{ind}fallback-field {}", fb.name().value()));
        comments(out, &ind2, fb.comment());
        docs(out, &ind2, fb.doc());
    }
}

fn variants(out: &mut Vec<String>, ind: &str, vs: &[EnumVariant], fb: Option<&EnumFallback>) {
    let ind2 = format!("{ind}  ");
    for v in vs {
        out.push(format!(
            "{ind}variant {} @ {}{}",
            v.name().value(),
            v.id().value(),
            match v.variant_type() {
                Some(t) => format!(" = {}", type_name(t)),
                None => String::new(),
            }
        ));
        comments(out, &ind2, v.comment());
        docs(out, &ind2, v.doc());
    }
    if let Some(fb) = fb {
        out.push(format!("{ind}fallback-variant {}", fb.name().value()));
        comments(out, &ind2, fb.comment());
        docs(out, &ind2, fb.doc());
    }
}

fn inline_struct(out: &mut Vec<String>, ind: &str, s: &InlineStruct) {
    out.push(format!("{ind}inline-struct"));
    let ind2 = format!("{ind}  ");
    docs(out, &ind2, s.doc());
    attrs(out, &ind2, s.attributes());
    fields(out, &ind2, s.fields(), s.fallback());
}

fn inline_enum(out: &mut Vec<String>, ind: &str, e: &InlineEnum) {
    out.push(format!("{ind}inline-enum"));
    let ind2 = format!("{ind}  ");
    docs(out, &ind2, e.doc());
    attrs(out, &ind2, e.attributes());
    variants(out, &ind2, e.variants(), e.fallback());
}

fn type_or_inline(out: &mut Vec<String>, ind: &str, t: &TypeNameOrInline) {
    match t {
        TypeNameOrInline::TypeName(t) => out.push(format!("{ind}type {}", type_name(t))),
        TypeNameOrInline::Struct(s) => inline_struct(out, ind, s),
        TypeNameOrInline::Enum(e) => inline_enum(out, ind, e),
    }
}

fn fn_part(out: &mut Vec<String>, ind: &str, what: &str, p: Option<&FunctionPart>) {
    if let Some(p) = p {
        out.push(format!("{ind}{what}"));
        let ind2 = format!("{ind}  ");
        comments(out, &ind2, p.comment());
        type_or_inline(out, &ind2, p.part_type());
    }
}

/// Walks the public AST accessors of a schema into a span-free list of lines: definitions in
/// order with names, ids, types, `required`, attributes with options, comment and doc lists (by
/// `value_inner()`), fallbacks, service uuid/version; imports as a sorted set of names plus the
/// sorted multiset of commented imports.
pub fn proj(schema: &Schema) -> Vec<String> {
    let mut out = vec![];
    out.push("schema".to_string());
    comments(&mut out, "  ", schema.comment());
    docs(&mut out, "  ", schema.doc());

    let mut names: Vec<&str> = schema.imports().iter().map(|i| i.schema_name().value()).collect();
    names.sort();
    names.dedup();
    for n in names {
        out.push(format!("import {n}"));
    }
    let mut commented: Vec<String> = schema
        .imports()
        .iter()
        .filter(|i| !i.comment().is_empty())
        .map(|i| {
            let cs: Vec<String> = i.comment().iter().map(|c| format!("{:?}", c.value_inner())).collect();
            format!("import-comments {} {}", i.schema_name().value(), cs.join(" "))
        })
        .collect();
    commented.sort();
    out.extend(commented);

    for def in schema.definitions() {
        match def {
            Definition::Struct(d) => {
                out.push(format!("struct {}", d.name().value()));
                comments(&mut out, "  ", d.comment());
                docs(&mut out, "  ", d.doc());
                attrs(&mut out, "  ", d.attributes());
                fields(&mut out, "  ", d.fields(), d.fallback());
            }
            Definition::Enum(d) => {
                out.push(format!("enum {}", d.name().value()));
                comments(&mut out, "  ", d.comment());
                docs(&mut out, "  ", d.doc());
                attrs(&mut out, "  ", d.attributes());
                variants(&mut out, "  ", d.variants(), d.fallback());
            }
            Definition::Service(d) => {
                out.push(format!("service {}", d.name().value()));
                comments(&mut out, "  ", d.comment());
                docs(&mut out, "  ", d.doc());
                out.push(format!("  uuid {}", d.uuid().value()));
                comments(&mut out, "    ", d.uuid_comment());
                out.push(format!("  version {}", d.version().value()));
                comments(&mut out, "    ", d.version_comment());
                for item in d.items() {
                    match item {
                        ServiceItem::Function(f) => {
                            out.push(format!("  fn {} @ {}", f.name().value(), f.id().value()));
                            comments(&mut out, "    ", f.comment());
                            docs(&mut out, "    ", f.doc());
                            fn_part(&mut out, "    ", "args", f.args());
                            fn_part(&mut out, "    ", "ok", f.ok());
                            fn_part(&mut out, "    ", "err", f.err());
                        }
                        ServiceItem::Event(e) => {
                            out.push(format!("  event {} @ {}", e.name().value(), e.id().value()));
                            comments(&mut out, "    ", e.comment());
                            docs(&mut out, "    ", e.doc());
                            if let Some(t) = e.event_type() {
                                type_or_inline(&mut out, "    ", t);
                            }
                        }
                    }
                }
                if let Some(fb) = d.function_fallback() {
                    out.push(format!("  fn-fallback {}", fb.name().value()));
                    comments(&mut out, "    ", fb.comment());
                    docs(&mut out, "    ", fb.doc());
                }
                if let Some(fb) = d.event_fallback() {
                    out.push(format!("  event-fallback {}", fb.name().value()));
                    comments(&mut out, "    ", fb.comment());
                    docs(&mut out, "    ", fb.doc());
                }
            }
            Definition::Const(d) => {
                let v = match d.value() {
                    ConstValue::U8(v) => format!("u8({})", v.value()),
                    ConstValue::I8(v) => format!("i8({})", v.value()),
                    ConstValue::U16(v) => format!("u16({})", v.value()),
                    ConstValue::I16(v) => format!("i16({})", v.value()),
                    ConstValue::U32(v) => format!("u32({})", v.value()),
                    ConstValue::I32(v) => format!("i32({})", v.value()),
                    ConstValue::U64(v) => format!("u64({})", v.value()),
                    ConstValue::I64(v) => format!("i64({})", v.value()),
                    ConstValue::String(v) => format!("string({:?})", v.value()),
                    ConstValue::Uuid(v) => format!("uuid({})", v.value()),
                };
                out.push(format!("const {} = {}", d.name().value(), v));
                comments(&mut out, "  ", d.comment());
                docs(&mut out, "  ", d.doc());
            }
            Definition::Newtype(d) => {
                out.push(format!("newtype {} = {}", d.name().value(), type_name(d.target_type())));
                comments(&mut out, "  ", d.comment());
                docs(&mut out, "  ", d.doc());
                attrs(&mut out, "  ", d.attributes());
            }
        }
    }
    out
}

/// Counts used by the non-triviality rules: (definitions, inline types, comments inside
/// definition bodies, docs inside definition bodies), measured on the parsed AST.
#[derive(Debug, Default, Clone, Copy)]
pub struct Shape {
    pub defs: usize,
    pub inline_types: usize,
    pub nested_comments: usize,
    pub nested_docs: usize,
    pub attributes: usize,
    pub services: usize,
    pub fallbacks: usize,
    pub imports: usize,
}

pub fn shape(schema: &Schema) -> Shape {
    let mut s = Shape { defs: schema.definitions().len(), imports: schema.imports().len(), ..Default::default() };
    fn fl(s: &mut Shape, fs: &[StructField], fb: Option<&StructFallback>) {
        for f in fs {
            s.nested_comments += f.comment().len();
            s.nested_docs += f.doc().len();
        }
        if let Some(fb) = fb {
            s.fallbacks += 1;
            s.nested_comments += fb.comment().len();
            s.nested_docs += fb.doc().len();
        }
    }
    fn vl(s: &mut Shape, vs: &[EnumVariant], fb: Option<&EnumFallback>) {
        for v in vs {
            s.nested_comments += v.comment().len();
            s.nested_docs += v.doc().len();
        }
        if let Some(fb) = fb {
            s.fallbacks += 1;
            s.nested_comments += fb.comment().len();
            s.nested_docs += fb.doc().len();
        }
    }
    fn ti(s: &mut Shape, t: &TypeNameOrInline) {
        match t {
            TypeNameOrInline::TypeName(_) => {}
            TypeNameOrInline::Struct(x) => {
                s.inline_types += 1;
                s.nested_docs += x.doc().len();
                s.attributes += x.attributes().len();
                fl(s, x.fields(), x.fallback());
            }
            TypeNameOrInline::Enum(x) => {
                s.inline_types += 1;
                s.nested_docs += x.doc().len();
                s.attributes += x.attributes().len();
                vl(s, x.variants(), x.fallback());
            }
        }
    }
    for def in schema.definitions() {
        match def {
            Definition::Struct(d) => {
                s.attributes += d.attributes().len();
                fl(&mut s, d.fields(), d.fallback());
            }
            Definition::Enum(d) => {
                s.attributes += d.attributes().len();
                vl(&mut s, d.variants(), d.fallback());
            }
            Definition::Service(d) => {
                s.services += 1;
                s.nested_comments += d.uuid_comment().len() + d.version_comment().len();
                for item in d.items() {
                    match item {
                        ServiceItem::Function(f) => {
                            s.nested_comments += f.comment().len();
                            s.nested_docs += f.doc().len();
                            for p in [f.args(), f.ok(), f.err()].into_iter().flatten() {
                                s.nested_comments += p.comment().len();
                                ti(&mut s, p.part_type());
                            }
                        }
                        ServiceItem::Event(e) => {
                            s.nested_comments += e.comment().len();
                            s.nested_docs += e.doc().len();
                            if let Some(t) = e.event_type() {
                                ti(&mut s, t);
                            }
                        }
                    }
                }
                if let Some(fb) = d.function_fallback() {
                    s.fallbacks += 1;
                    s.nested_comments += fb.comment().len();
                    s.nested_docs += fb.doc().len();
                }
                if let Some(fb) = d.event_fallback() {
                    s.fallbacks += 1;
                    s.nested_comments += fb.comment().len();
                    s.nested_docs += fb.doc().len();
                }
            }
            Definition::Const(_) => {}
            Definition::Newtype(d) => s.attributes += d.attributes().len(),
        }
    }
    s
}
